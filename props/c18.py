"""C18 — date serials and date functions follow the 1900 date system (KT: kernel translator)."""
import datetime

import z3

from kt import kt as K
from kt import models_date as DM
from kt.ob import kt_ob
from props.common import *  # noqa
from xlcalculator.xlfunctions import date as XD, utils as XU

EXPLANATION = ('The source of utils.number_to_datetime / datetime_to_number and of DATE, DAY, MONTH, YEAR, WEEKDAY, ISOWEEKNUM, DAYS, EDATE, EOMONTH, '
               'DATEDIF ("D", "M", "Y") and YEARFRAC (bases 0, 2, 3, 4; for 0 and 4 also the installed yearfrac package) is interpreted symbolically (kernel translator), methods of the repo\'s own classes (DateTime.__sub__ ...) included; the serial number (and the y/m/d, month-offset, '
               'return-type arguments) are z3 integers/reals. Each obligation is ONE query over every whole serial 1..2958465 (or the stated argument '
               'ranges) at once; unsat = the outcome equals the 1900-system reference for all of them.')
ASSUMPTIONS = ['library models (kt/models_date.py): datetime = (Gregorian ordinal, seconds of day), timedelta, comparison/subtraction; calendar fields of an ordinal '
               'as uninterpreted functions (equal fields <=> equal ordinals) or fresh (y, m, d) tied to the ordinal by the explicit days-from-civil formula; '
               'dateutil.relativedelta(years, months, days, day) and rrule(DAILY / MONTHLY / YEARLY: occurrences whose day of month does not exist are skipped; bounded unrolling with an unwinding assertion) by their documented semantics',
               'outside: DATEDIF units MD/YM/YD (not in the statement), YEARFRAC basis 1 and bases 0/4 on days of month 28-31 (US / European conventions differ), NOW/TODAY (volatile), serial 60 (Excel\'s fictitious 1900-02-29)']
TRUSTED = ['kt/kt.py interpreter', 'kt/models_date.py', 'reference in props/c18.py']

REF0 = datetime.date(1899, 12, 30).toordinal()
REF1 = datetime.date(1899, 12, 31).toordinal()
EPOCH_ORD = datetime.date(1900, 1, 1).toordinal()
NMAX = 2958465


def ord_ref(n):
    return z3.If(n >= 61, REF0 + n, REF1 + n)


def py_ord_ref(n):
    return (REF0 if n >= 61 else REF1) + n


def norm(leaf, model):
    if leaf.kind == 'raise':
        return ('raise', leaf.value)
    r = leaf.value
    if isinstance(r, DM.MDT):
        o = model.eval(r.ordinal, model_completion=True).as_long()
        s = model.eval(r.sec, model_completion=True)
        return ('dt', o, float(s.numerator_as_long()) / s.denominator_as_long())
    if K.is_sym(r):
        v = model.eval(r, model_completion=True)
        if z3.is_int_value(v):
            return ('num', float(v.as_long()))
        if z3.is_rational_value(v):
            return ('num', float(v.numerator_as_long()) / v.denominator_as_long())
        return ('num', str(v))
    if isinstance(r, (int, float)):
        return ('num', float(r))
    return ('other', repr(r))


def norm_native(r):
    if isinstance(r, XE.ExcelError):
        return ('raise', type(r).__name__)
    if isinstance(r, T.DateTime):
        r = r.value
    if isinstance(r, datetime.datetime):
        return ('dt', r.toordinal(), float(r.hour * 3600 + r.minute * 60 + r.second))
    if isinstance(r, T.Number):
        return ('num', float(r.value))
    if isinstance(r, (int, float)):
        return ('num', float(r))
    return ('other', repr(r))


def native_call(f, *a):
    try:
        return norm_native(f(*a))
    except XE.ExcelError as e:
        return ('raise', type(e).__name__)
    except Exception as e:
        return ('raise', type(e).__name__)


def field_axioms(n_py):
    """Concrete calendar facts for one ordinal (translator validation only)."""
    o = py_ord_ref(n_py)
    d = datetime.date.fromordinal(o)
    iso = d.isocalendar()
    return [DM.F_YEAR(o) == d.year, DM.F_MONTH(o) == d.month, DM.F_DAY(o) == d.day, DM.F_ISOWEEK(o) == iso[1], DM.F_ISOYEAR(o) == iso[0]]


SERIAL_SAMPLES = [1, 2, 58, 59, 61, 62, 366, 367, 36526, 43831, 43890, 44196, 2958465, 2958464, 73050, 401769]


def unwrap(f):
    import inspect
    return inspect.unwrap(f)


def build(tier, seed):
    obs = []
    n = z3.Int('n')
    whole = [n >= 1, n <= NMAX, n != 60]

    def add(name, spec, bounds, family=None, cost=3, timeout=120):
        obs.append(kt_ob(f'c18.{name}', spec, family='c18.' + (family or name.split('[')[0]), bounds=bounds, cost=cost, timeout=timeout))

    # ---------------- serial -> date
    def sp_n2d():
        def encode():
            leaves, it = K.explore(XU.number_to_datetime, [n], whole, DM.DATE_MODELS)
            return leaves, it, {'n': n}

        def bad(l):
            if l.kind != 'return' or not isinstance(l.value, DM.MDT):
                return True
            return z3.Or(l.value.ordinal != ord_ref(n), l.value.sec != 0)

        def replay(a):
            got = native_call(XU.number_to_datetime, a['n'])
            exp = ('dt', py_ord_ref(a['n']), 0.0)
            return got == exp, f'number_to_datetime({a["n"]}) = {got}, 1900 system: {exp} ({datetime.date.fromordinal(exp[1])})'
        return dict(encode=encode, bad=bad, replay=replay, norm=norm, native=lambda a: native_call(XU.number_to_datetime, a['n']), samples=[{'n': x} for x in SERIAL_SAMPLES],
                    show=lambda a: f'serial {a["n"]}')
    add('serial-to-date', sp_n2d, 'every whole serial 1..2958465 except 60: 1..59 -> 1899-12-31 + n (serial 1 = 1900-01-01, 59 = 1900-02-28), >= 61 -> 1899-12-30 + n (61 = 1900-03-01); hence strictly '
        'monotone and injective on whole days')

    # ---------------- date -> serial -> date round trip
    def roundtrip(v):
        return XU.datetime_to_number(XU.number_to_datetime(v))

    def sp_rt():
        def encode():
            leaves, it = K.explore(roundtrip, [n], whole, DM.DATE_MODELS)
            return leaves, it, {'n': n}

        def bad(l):
            if l.kind != 'return' or not K.is_sym(l.value):
                return True
            return K.to_real(l.value) != z3.ToReal(n)

        def replay(a):
            got = native_call(roundtrip, a['n'])
            return got == ('num', float(a['n'])), f'datetime_to_number(number_to_datetime({a["n"]})) = {got}'
        return dict(encode=encode, bad=bad, replay=replay, norm=norm, native=lambda a: native_call(roundtrip, a['n']), samples=[{'n': x} for x in SERIAL_SAMPLES], show=lambda a: f'serial {a["n"]}')
    add('roundtrip', sp_rt, 'datetime_to_number(number_to_datetime(n)) = n for every whole serial 1..2958465 except 60 (bijection on whole days)')

    def sp_d2n():
        o = z3.Int('o')

        def encode():
            leaves, it = K.explore(XU.datetime_to_number, [DM.MDT(o, 0)], [o >= EPOCH_ORD, o <= REF0 + NMAX], DM.DATE_MODELS)
            return leaves, it, {'o': o}

        def bad(l):
            if l.kind != 'return':
                return True
            exp = z3.If(o - REF0 >= 61, o - REF0, o - REF1)
            return K.to_real(l.value) != z3.ToReal(exp)

        def replay(a):
            d = datetime.datetime.fromordinal(a['o'])
            got = native_call(XU.datetime_to_number, d)
            exp = a['o'] - REF0 if a['o'] - REF0 >= 61 else a['o'] - REF1
            return got == ('num', float(exp)), f'datetime_to_number({d.date()}) = {got}, expected {exp}'
        return dict(encode=encode, bad=bad, replay=replay, norm=norm, native=lambda a: native_call(XU.datetime_to_number, datetime.datetime.fromordinal(a['o'])),
                    samples=[{'o': EPOCH_ORD}, {'o': EPOCH_ORD + 58}, {'o': EPOCH_ORD + 59}, {'o': REF0 + 43831}, {'o': REF0 + NMAX}], show=lambda a: f'date with ordinal {a["o"]}')
    add('date-to-serial', sp_d2n, 'every calendar day 1900-01-01 .. 9999-12-31 (midnight): serial of the 1900 system (1900-02-28 = 59, 1900-03-01 = 61)')

    # ---------------- fraction of a serial = time of day
    def sp_frac():
        x = z3.Real('x')

        def encode():
            leaves, it = K.explore(XU.number_to_datetime, [x], [x >= 61, x <= NMAX], DM.DATE_MODELS)
            return leaves, it, {'x': x}

        def bad(l):
            if l.kind != 'return' or not isinstance(l.value, DM.MDT):
                return True
            return z3.ToReal(l.value.ordinal - REF0) + l.value.sec / 86400 != x

        def replay(a):
            num, den = a['x'] if isinstance(a['x'], tuple) else (a['x'], 1)
            xv = num / den
            r = XU.number_to_datetime(xv)
            got = (r.toordinal() - REF0) + (r.hour * 3600 + r.minute * 60 + r.second + r.microsecond / 1e6) / 86400
            return abs(got - xv) < 1e-6, f'number_to_datetime({xv}) = {r} = serial {got}'
        return dict(encode=encode, bad=bad, replay=replay, norm=norm, native=lambda a: ('skip',), samples=[], show=lambda a: f'serial {a["x"]}')
    add('fraction[serial->time]', sp_frac, 'every real serial 61 <= x <= 2958465: date = whole part, time of day = fractional part x 86400 s (reals)')

    def sp_frac2():
        o, s_ = z3.Int('o'), z3.Int('s')

        def encode():
            leaves, it = K.explore(XU.datetime_to_number, [DM.MDT(o, z3.ToReal(s_))], [o >= REF0 + 61, o <= REF0 + NMAX, s_ >= 0, s_ < 86400], DM.DATE_MODELS)
            return leaves, it, {'o': o, 's': s_}

        def bad(l):
            if l.kind != 'return':
                return True
            return K.to_real(l.value) != z3.ToReal(o - REF0) + z3.ToReal(s_) / 86400

        def replay(a):
            d = datetime.datetime.fromordinal(a['o']) + datetime.timedelta(seconds=a['s'])
            got = XU.datetime_to_number(d)
            exp = (a['o'] - REF0) + a['s'] / 86400
            return abs(got - exp) < 1e-9, f'datetime_to_number({d}) = {got}, expected {exp}'
        return dict(encode=encode, bad=bad, replay=replay, norm=norm, native=lambda a: native_call(XU.datetime_to_number, datetime.datetime.fromordinal(a['o']) + datetime.timedelta(seconds=a['s'])),
                    samples=[{'o': REF0 + 43831, 's': 0}], show=lambda a: f'ordinal {a["o"]} + {a["s"]} s', known={'K18-time-fraction': s_ != 0})
    add('fraction[time->serial]', sp_frac2, 'every date 1900-03-01..9999-12-31 with every whole second of the day: serial = days + seconds/86400')

    # ---------------- calendar fields
    fields = {'DAY': DM.F_DAY, 'MONTH': DM.F_MONTH, 'YEAR': DM.F_YEAR, 'ISOWEEKNUM': DM.F_ISOWEEK}
    year_axiom = [DM.F_YEAR(REF0 + n) >= 1900, DM.F_YEAR(REF0 + n) <= 9999]
    for fname, F in fields.items():
        def mk(fname, F):
            def spec():
                f = unwrap(getattr(XD, fname))

                def encode():
                    leaves, it = K.explore(f, [n], [n >= 61, n <= NMAX] + year_axiom, DM.DATE_MODELS)
                    return leaves, it, {'n': n}

                def bad(l):
                    if l.kind != 'return':
                        return True
                    return l.value != F(REF0 + n)

                def replay(a):
                    d = datetime.date.fromordinal(REF0 + a['n'])
                    exp = {'DAY': d.day, 'MONTH': d.month, 'YEAR': d.year, 'ISOWEEKNUM': d.isocalendar()[1]}[fname]
                    got = native_call(getattr(XD, fname), a['n'])
                    return got == ('num', float(exp)), f'{fname}({a["n"]}) = {got}, calendar: {exp} ({d})'
                return dict(encode=encode, bad=bad, replay=replay, norm=norm, native=lambda a: native_call(getattr(XD, fname), a['n']), samples=[{'n': x} for x in SERIAL_SAMPLES if x >= 61],
                            axioms=lambda a: field_axioms(a['n']), show=lambda a: f'{fname}({a["n"]})')
            return spec
        add(f'field[{fname}]', mk(fname, F), f'{fname}(n) for every whole serial 61..2958465 = that Gregorian calendar field of 1899-12-30 + n (fields as uninterpreted functions of the ordinal: equal iff the ordinals agree)')

    TABLES = {None: (2, 3, 4, 5, 6, 7, 1), 1: (2, 3, 4, 5, 6, 7, 1), 2: (1, 2, 3, 4, 5, 6, 7), 3: (0, 1, 2, 3, 4, 5, 6), 11: (1, 2, 3, 4, 5, 6, 7), 12: (7, 1, 2, 3, 4, 5, 6),
              13: (6, 7, 1, 2, 3, 4, 5), 14: (5, 6, 7, 1, 2, 3, 4), 15: (4, 5, 6, 7, 1, 2, 3), 16: (3, 4, 5, 6, 7, 1, 2), 17: (2, 3, 4, 5, 6, 7, 1)}

    def sp_weekday(omitted):
        def spec():
            t = z3.Int('t')
            f = unwrap(XD.WEEKDAY)

            def encode():
                leaves, it = K.explore(f, [n] if omitted else [n, t], [n >= 61, n <= NMAX] + ([] if omitted else [t >= -2, t <= 20]), DM.DATE_MODELS)
                return leaves, it, ({'n': n} if omitted else {'n': n, 't': t})

            def bad(l):
                wd = (REF0 + n + 6) % 7            # Monday = 0
                if omitted:
                    exp = z3.IntVal(0)
                    for i, v in enumerate(TABLES[None]):
                        exp = z3.If(wd == i, v, exp)
                    return True if l.kind != 'return' else l.value != exp
                valid = z3.Or(*[t == k for k in TABLES if k is not None])
                if l.kind == 'raise':
                    return True if l.value != 'NumExcelError' else valid
                exp = z3.IntVal(-99)
                for k, tab in TABLES.items():
                    if k is None:
                        continue
                    for i, v in enumerate(tab):
                        exp = z3.If(z3.And(t == k, wd == i), v, exp)
                return z3.Or(z3.Not(valid), l.value != exp)

            def replay(a):
                d = datetime.date.fromordinal(REF0 + a['n'])
                tt = None if omitted else a['t']
                got = native_call(XD.WEEKDAY, a['n']) if omitted else native_call(XD.WEEKDAY, a['n'], tt)
                exp = ('num', float(TABLES[tt][d.weekday()])) if tt in TABLES else ('raise', 'NumExcelError')
                return got == exp, f'WEEKDAY({a["n"]}, {tt}) = {got}, expected {exp} ({d}, {d.strftime("%A")})'
            return dict(encode=encode, bad=bad, replay=replay, norm=norm, native=lambda a: native_call(XD.WEEKDAY, a['n']) if omitted else native_call(XD.WEEKDAY, a['n'], a['t']),
                        samples=[{'n': x} if omitted else {'n': x, 't': tt} for x in (61, 43831, 43832, NMAX) for tt in ((0,) if omitted else (1, 2, 3, 11, 14, 17, 4, 0))],
                        show=lambda a: f'WEEKDAY({a})')
        return spec
    add('WEEKDAY[return type omitted]', sp_weekday(True), 'every whole serial 61..2958465: Sunday = 1 .. Saturday = 7')
    add('WEEKDAY[all return types]', sp_weekday(False), 'every whole serial 61..2958465 x every return type -2..20: the ten documented tables, #NUM! for any other type', cost=10)

    # ---------------- DATE
    YEARS = [5, 1900, 1999, 2000, 2023, 2024, 2100, 9999, 0, 10000]      # incl. two-digit-style year, leap / century / 400-year, the limits

    def sp_date(ycon):
      def sp_date_():
        y, m, d = z3.Int('y'), z3.Int('m'), z3.Int('d')
        f = unwrap(XD.DATE)
        R = 2000 if tier == 'thorough' else 60

        def ref(yv, mv, dv):
            """(error?, ordinal)"""
            yy = z3.If(yv < 1900, yv + 1900, yv)
            total = yy * 12 + (mv - 1)
            ny, nm = total / 12, total % 12 + 1
            o = DM.dfc(ny, nm, 1) + dv - 1
            err = z3.Or(z3.Not(z3.And(0 < yv, yv <= 9999)), o <= EPOCH_ORD, ny > 9999, o > DM.MAX_ORD)
            return err, o

        def encode():
            leaves, it = K.explore(f, [y, m, d], [y == ycon, m >= -R, m <= R, d >= -R, d <= R], DM.DATE_MODELS)
            return leaves, it, {'y': y, 'm': m, 'd': d}

        def bad(l):
            err, o = ref(y, m, d)
            if l.kind == 'raise':
                return True if l.value != 'NumExcelError' else z3.Not(err)
            if not isinstance(l.value, DM.MDT):
                return True
            return z3.Or(err, l.value.ordinal != o, l.value.sec != 0)

        def py_ref(yv, mv, dv):
            if not (0 < yv <= 9999):
                return ('raise', 'NumExcelError')
            yy = yv + 1900 if yv < 1900 else yv
            total = yy * 12 + (mv - 1)
            ny, nm = total // 12, total % 12 + 1
            if not (1 <= ny <= 9999):
                return ('raise', 'NumExcelError')
            o = datetime.date(ny, nm, 1).toordinal() + dv - 1
            if o <= EPOCH_ORD or o > DM.MAX_ORD:
                return ('raise', 'NumExcelError')
            return ('dt', o, 0.0)

        def replay(a):
            got = native_call(XD.DATE, a['y'], a['m'], a['d'])
            exp = py_ref(a['y'], a['m'], a['d'])
            return got == exp, f'DATE({a["y"]},{a["m"]},{a["d"]}) = {got}, expected {exp}'
        samples = [{'y': 2020, 'm': 1, 'd': 1}, {'y': 2020, 'm': 14, 'd': 1}, {'y': 2020, 'm': 1, 'd': 40}, {'y': 9999, 'm': 12, 'd': 31}, {'y': 9999, 'm': 12, 'd': 32}, {'y': 9998, 'm': 36, 'd': 1}, {'y': 2020, 'm': 0, 'd': 0}, {'y': 2020, 'm': -11, 'd': -5}, {'y': 100, 'm': 3, 'd': 1},
                   {'y': 1900, 'm': 1, 'd': 1}, {'y': 1900, 'm': 1, 'd': 2}, {'y': 0, 'm': 1, 'd': 1}, {'y': 9999, 'm': 1, 'd': 1}, {'y': 2024, 'm': 2, 'd': 29}, {'y': 2023, 'm': 2, 'd': 29}]
        samples = [dict(x, y=ycon) for x in samples[:6]]
        return dict(encode=encode, bad=bad, replay=replay, norm=norm, native=lambda a: native_call(XD.DATE, a['y'], a['m'], a['d']), samples=samples, show=lambda a: f'DATE({a["y"]},{a["m"]},{a["d"]})')
      return sp_date_
    R = 2000 if tier == 'thorough' else 60
    for ycon in YEARS:
      add(f'DATE[carry, year {ycon}]', sp_date(ycon), f'year {ycon}, every month and day in -{R}..{R}: first of the carried (year, month) + day - 1; years below 1900 count from 1900; #NUM! for a year outside 1..9999, a result not after 1900-01-01 or after 9999-12-31',
        cost=10, timeout=300)

    def sp_date_fields():
        f = unwrap(XD.DATE)
        yv, mv, dv = z3.Int('fy'), z3.Int('fm'), z3.Int('fd')
        civil = z3.And(yv >= 1900, yv <= 9999, mv >= 1, mv <= 12, dv >= 1, dv <= DM.month_days(yv, mv), DM.dfc(yv, mv, dv) == REF0 + n)

        def encode():
            leaves, it = K.explore(f, [yv, mv, dv], [n >= 61, n <= NMAX, civil], DM.DATE_MODELS)
            return leaves, it, {'n': n, 'fy': yv, 'fm': mv, 'fd': dv}

        def bad(l):
            if l.kind != 'return' or not isinstance(l.value, DM.MDT):
                return True
            return z3.Or(l.value.ordinal != REF0 + n, l.value.sec != 0)

        def replay(a):
            d = datetime.date.fromordinal(REF0 + a['n'])
            got = native_call(XD.DATE, d.year, d.month, d.day)
            back = native_call(XU.datetime_to_number, datetime.datetime(d.year, d.month, d.day))
            return got == ('dt', REF0 + a['n'], 0.0) and back == ('num', float(a['n'])), f'DATE({d.year},{d.month},{d.day}) = {got}; as serial {back}; expected {a["n"]}'
        return dict(encode=encode, bad=bad, replay=replay, norm=norm, native=lambda a: native_call(XD.DATE, a['fy'], a['fm'], a['fd']),
                    samples=[{'n': x, 'fy': datetime.date.fromordinal(REF0 + x).year, 'fm': datetime.date.fromordinal(REF0 + x).month, 'fd': datetime.date.fromordinal(REF0 + x).day} for x in (61, 43831, 43890, NMAX)],
                    show=lambda a: f'serial {a["n"]}')
    add('DATE[of fields]', sp_date_fields, 'DATE(YEAR(n), MONTH(n), DAY(n)) is the date of serial n for every whole serial 61..2958465 (the (year, month, day) of n tied to it by the days-from-civil formula)',
        cost=20, timeout=300)

    # ---------------- EDATE / EOMONTH
    def sp_edate(eom, ycon, KR=None):
        KR = KR if KR is not None else (120 if tier == 'thorough' else 24)
        lo = max(61, datetime.date(ycon, 1, 1).toordinal() - REF0)
        hi = datetime.date(ycon, 12, 31).toordinal() - REF0

        def spec():
            k = z3.Int('k')
            f = unwrap(XD.EOMONTH if eom else XD.EDATE)
            y0, m0, d0 = z3.Int('y0'), z3.Int('m0'), z3.Int('d0')
            civil = z3.And(y0 >= 1900, y0 <= 9999, m0 >= 1, m0 <= 12, d0 >= 1, d0 <= DM.month_days(y0, m0), DM.dfc(y0, m0, d0) == REF0 + n)

            def encode():
                leaves, it = K.explore(f, [DM.MXlDateTime(DM.MDT(REF0 + n, 0)), k], [n >= lo, n <= hi, y0 == ycon, k >= -KR, k <= KR, civil], DM.DATE_MODELS)
                return leaves, it, {'n': n, 'k': k, 'y0': y0, 'm0': m0, 'd0': d0}

            def bad(l):
                total = y0 * 12 + (m0 - 1) + k
                ny, nm = total / 12, total % 12 + 1
                nd = z3.IntVal(31) if eom else d0
                nd = z3.If(nd > DM.month_days(ny, nm), DM.month_days(ny, nm), nd)
                o = DM.dfc(ny, nm, nd)
                moved = DM.dfc(ny, nm, z3.If(d0 > DM.month_days(ny, nm), DM.month_days(ny, nm), d0))
                err = moved <= EPOCH_ORD
                if l.kind == 'raise':
                    return True if l.value != 'NumExcelError' else z3.Not(err)
                exp = z3.If(o - REF0 >= 61, o - REF0, o - REF1)
                return z3.Or(err, K.to_real(l.value) != z3.ToReal(exp))

            def py_ref(nv, kv):
                d = datetime.date.fromordinal(REF0 + nv)
                total = d.year * 12 + d.month - 1 + kv
                ny, nm = total // 12, total % 12 + 1
                import calendar
                if not (1 <= ny <= 9999):
                    return ('raise', 'out-of-range')
                md = calendar.monthrange(ny, nm)[1]
                moved = datetime.date(ny, nm, min(d.day, md)).toordinal()
                if moved <= EPOCH_ORD:
                    return ('raise', 'NumExcelError')
                o = datetime.date(ny, nm, md if eom else min(d.day, md)).toordinal()
                return ('num', float(o - REF0 if o - REF0 >= 61 else o - REF1))

            def call(a):
                r = (XD.EOMONTH if eom else XD.EDATE)(a['n'], a['k'])
                if isinstance(r, T.DateTime):          # EDATE's return annotation turns the serial into a DateTime object
                    r = XU.datetime_to_number(r.value)
                return norm_native(r)

            def replay(a):
                got, exp = call(a), py_ref(a['n'], a['k'])
                return got == exp, f'{"EOMONTH" if eom else "EDATE"}({a["n"]}, {a["k"]}) = {got}, expected {exp}'

            def smp(nv, kv):
                d = datetime.date.fromordinal(REF0 + nv)
                return {'n': nv, 'k': kv, 'y0': d.year, 'm0': d.month, 'd0': d.day}
            samples = [smp(x, max(-KR, min(KR, kk))) for x, kk in ((lo, 1), (lo, -1), (lo + 30, 13), (hi, 2), (hi - 306, 12), (lo + 58, -3), (hi, 0), (lo + 59, KR)) if lo <= x <= hi]
            return dict(encode=encode, bad=bad, replay=replay, norm=norm, native=call, samples=samples, show=lambda a: f'{"EOMONTH" if eom else "EDATE"}({a["n"]}, {a["k"]})')
        return spec
    KR = 120 if tier == 'thorough' else 24
    add('EDATE[start in 1900, short offsets]', sp_edate(False, 1900, 3), 'every whole serial 61.. of the year 1900 x month offsets -3..3 (results before 1900-01-01 give #NUM!)', cost=30, timeout=600)
    add('EOMONTH[start in 1900, short offsets]', sp_edate(True, 1900, 3), 'every whole serial 61.. of the year 1900 x month offsets -3..3', cost=30, timeout=600)
    for ycon in (1950, 1999, 2000, 2023, 2024, 2100, 9000):
        add(f'EDATE[start in {ycon}]', sp_edate(False, ycon), f'every whole serial of the year {ycon} (from 61) x every month offset -{KR}..{KR}: same day of the month moved, clipped to the month\'s end; '
            '#NUM! when not after 1900-01-01', cost=15, timeout=600)
        add(f'EOMONTH[start in {ycon}]', sp_edate(True, ycon), f'every whole serial of the year {ycon} (from 61) x every month offset -{KR}..{KR}: last day of the month moved to', cost=15, timeout=600)

    # ---------------- DAYS, DATEDIF("D"), YEARFRAC basis 2/3
    a_, b_ = z3.Int('a'), z3.Int('b')
    two = [a_ >= 61, a_ <= NMAX, b_ >= 61, b_ <= NMAX]

    def dts():
        return [DM.MXlDateTime(DM.MDT(REF0 + a_, 0)), DM.MXlDateTime(DM.MDT(REF0 + b_, 0))]

    def sp_days():
        f = unwrap(XD.DAYS)
        # all whole serials but Excel's fictitious 60: serials below 60 sit one day later in the proleptic calendar (serial 59 = 1900-02-28)
        dom = [a_ >= 1, a_ <= NMAX, a_ != 60, b_ >= 1, b_ <= NMAX, b_ != 60]

        def o(v):
            return z3.If(v >= 61, REF0 + v, REF1 + v)

        def encode():
            leaves, it = K.explore(f, [DM.MXlDateTime(DM.MDT(o(a_), 0)), DM.MXlDateTime(DM.MDT(o(b_), 0))], dom, DM.DATE_MODELS)
            return leaves, it, {'a': a_, 'b': b_}

        def bad(l):
            return True if l.kind != 'return' else K.to_real(l.value) != z3.ToReal(a_ - b_)

        def replay(a):
            got = native_call(XD.DAYS, a['a'], a['b'])
            return got == ('num', float(a['a'] - a['b'])), f'DAYS({a["a"]}, {a["b"]}) = {got}'
        return dict(encode=encode, bad=bad, replay=replay, norm=norm, native=lambda a: native_call(XD.DAYS, a['a'], a['b']),
                    samples=[{'a': 43831, 'b': 43800}, {'a': 61, 'b': 2958465}, {'a': 5, 'b': 40}], show=lambda a: f'DAYS({a})')
    add('DAYS', sp_days, 'every ordered pair of whole serials 1..2958465 except the fictitious serial 60: end - start, also across 1900-02-28 / 1900-03-01 (serials 59 / 61)')

    def sp_datedif():
        f = unwrap(XD.DATEDIF)

        def encode():
            leaves, it = K.explore(f, dts() + [T.Text('d')], two, DM.DATE_MODELS)
            return leaves, it, {'a': a_, 'b': b_}

        def bad(l):
            if l.kind == 'raise':
                return True if l.value != 'NumExcelError' else z3.Not(a_ > b_)
            return z3.Or(a_ > b_, K.to_real(l.value) != z3.ToReal(b_ - a_))

        def replay(a):
            got = native_call(XD.DATEDIF, a['a'], a['b'], 'd')
            exp = ('raise', 'NumExcelError') if a['a'] > a['b'] else ('num', float(a['b'] - a['a']))
            return got == exp, f'DATEDIF({a["a"]}, {a["b"]}, "d") = {got}, expected {exp}'
        return dict(encode=encode, bad=bad, replay=replay, norm=norm, native=lambda a: native_call(XD.DATEDIF, a['a'], a['b'], 'd'), samples=[{'a': 43800, 'b': 43831}, {'a': 43831, 'b': 43800}, {'a': 100, 'b': 100}],
                    show=lambda a: f'DATEDIF({a}, "d")')
    add('DATEDIF[D]', sp_datedif, 'every ordered pair of whole serials 61..2958465, unit "d" (lower case): days between; #NUM! when start > end')

    def sp_datedif_my(unit, ycon, span, unroll):
        """DATEDIF "M" / "Y": complete months / years between two dates (end's day-of-month before start's costs one)."""
        lo = max(61, datetime.date(ycon, 1, 1).toordinal() - REF0)
        hi = datetime.date(ycon, 12, 31).toordinal() - REF0

        def spec():
            f = unwrap(XD.DATEDIF)
            sy, sm, sd, ey, em, ed = [z3.Int(x) for x in ('sy', 'sm', 'sd', 'ey', 'em', 'ed')]
            cons = [a_ >= lo, a_ <= hi, b_ >= a_ - 40, b_ >= 61, b_ <= a_ + span, b_ <= NMAX, sy == ycon,
                    DM.civil_axioms(REF0 + a_, sy, sm, sd), DM.civil_axioms(REF0 + b_, ey, em, ed), ey >= ycon - 1, ey <= ycon + span // 365 + 1]
            months = (ey - sy) * 12 + (em - sm) - z3.If(ed < sd, 1, 0)
            years = ey - sy - z3.If(z3.Or(em < sm, z3.And(em == sm, ed < sd)), 1, 0)
            exp = months if unit == 'M' else years

            def encode():
                DM.RRULE_UNROLL.update(unroll)
                leaves, it = K.explore(f, dts() + [T.Text(unit)], cons, DM.DATE_MODELS)
                return leaves, it, {'a': a_, 'b': b_, 'sy': sy, 'sm': sm, 'sd': sd, 'ey': ey, 'em': em, 'ed': ed}

            def bad(l):
                if l.kind == 'raise':
                    return True if l.value != 'NumExcelError' else z3.Not(a_ > b_)
                return z3.Or(a_ > b_, K.to_real(l.value) != z3.ToReal(exp))

            def py_ref(a):
                if a['a'] > a['b']:
                    return ('raise', 'NumExcelError')
                s0, e0 = datetime.date.fromordinal(REF0 + a['a']), datetime.date.fromordinal(REF0 + a['b'])
                if unit == 'M':
                    return ('num', float((e0.year - s0.year) * 12 + e0.month - s0.month - (1 if e0.day < s0.day else 0)))
                return ('num', float(e0.year - s0.year - (1 if (e0.month, e0.day) < (s0.month, s0.day) else 0)))

            def replay(a):
                got, want = native_call(XD.DATEDIF, a['a'], a['b'], unit), py_ref(a)
                return got == want, f'DATEDIF({datetime.date.fromordinal(REF0 + a["a"])}, {datetime.date.fromordinal(REF0 + a["b"])}, "{unit}") = {got}, expected {want}'

            def smp(x, dd):
                s0, e0 = datetime.date.fromordinal(REF0 + x), datetime.date.fromordinal(REF0 + x + dd)
                return {'a': x, 'b': x + dd, 'sy': s0.year, 'sm': s0.month, 'sd': s0.day, 'ey': e0.year, 'em': e0.month, 'ed': e0.day}
            samples = [smp(x, dd) for x, dd in ((lo + 14, 31), (lo + 100, 0), (hi - 20, 45), (lo + 200, -5), (lo + 40, min(span, 366))) if lo <= x <= hi and x + dd >= 61]
            return dict(encode=encode, bad=bad, replay=replay, norm=norm, native=lambda a: native_call(XD.DATEDIF, a['a'], a['b'], unit), samples=samples,
                        show=lambda a: f'DATEDIF({datetime.date.fromordinal(REF0 + a["a"])}, {datetime.date.fromordinal(REF0 + a["b"])}, "{unit}")')
        return spec
    mspan, yspan = (1100, 3700) if tier == 'thorough' else (400, 1500)
    for ycon in (1900, 1999, 2000, 2023, 2024, 2100, 9000):
        add(f'DATEDIF[M, start in {ycon}]', sp_datedif_my('M', ycon, mspan, {'MONTHLY': mspan // 28 + 1}),
            f'start: every whole serial of the year {ycon} (from 61); end: start-40 .. start+{mspan} days: complete months between the dates, #NUM! when start > end', cost=20, timeout=600)
        add(f'DATEDIF[Y, start in {ycon}]', sp_datedif_my('Y', ycon, yspan, {'YEARLY': yspan // 365 + 1}),
            f'start: every whole serial of the year {ycon} (from 61); end: start-40 .. start+{yspan} days: complete years between the dates, #NUM! when start > end', cost=20, timeout=600)

    def sp_yearfrac_30360(ycon, span):
        """YEARFRAC bases 0 and 4 (30/360): the yearfrac package's pure-Python day count is interpreted from its installed source like the
        repo's own code; compared where the US and the European convention coincide (both days of month <= 27)."""
        lo = max(61, datetime.date(ycon, 1, 1).toordinal() - REF0)
        hi = datetime.date(ycon, 12, 31).toordinal() - REF0

        def spec():
            f = unwrap(XD.YEARFRAC)
            basis = z3.Int('basis')
            sy, sm, sd, ey, em, ed = [z3.Int(x) for x in ('sy', 'sm', 'sd', 'ey', 'em', 'ed')]
            cons = [a_ >= lo, a_ <= hi, b_ >= a_ - span, b_ >= 61, b_ <= a_ + span, b_ <= NMAX, sy == ycon, z3.Or(basis == 0, basis == 4),
                    DM.civil_axioms(REF0 + a_, sy, sm, sd), DM.civil_axioms(REF0 + b_, ey, em, ed), ey >= ycon - span // 365 - 1, ey <= ycon + span // 365 + 1]
            fwd = (ey - sy) * 360 + (em - sm) * 30 + (ed - sd)
            days = z3.If(a_ <= b_, fwd, -fwd)
            region = z3.And(sd <= 27, ed <= 27)

            def encode():
                leaves, it = K.explore(f, dts() + [basis], cons, DM.DATE_MODELS, inline_prefix=('xlcalculator', 'yearfrac'))
                return leaves, it, {'a': a_, 'b': b_, 'basis': basis, 'sy': sy, 'sm': sm, 'sd': sd, 'ey': ey, 'em': em, 'ed': ed}

            def bad(l):
                if l.kind != 'return':
                    return region
                return z3.And(region, K.to_real(l.value) != z3.ToReal(days) / 360)

            def py_ref(a):
                s0, e0 = sorted((datetime.date.fromordinal(REF0 + a['a']), datetime.date.fromordinal(REF0 + a['b'])))
                return ((e0.year - s0.year) * 360 + (e0.month - s0.month) * 30 + (e0.day - s0.day)) / 360

            def replay(a):
                got = native_call(XD.YEARFRAC, a['a'], a['b'], a['basis'])
                s0, e0 = datetime.date.fromordinal(REF0 + a['a']), datetime.date.fromordinal(REF0 + a['b'])
                if s0.day > 27 or e0.day > 27:
                    return True, 'outside the compared region'
                ok = got[0] == 'num' and abs(got[1] - py_ref(a)) < 1e-9
                return ok, f'YEARFRAC({s0}, {e0}, {a["basis"]}) = {got}, 30/360 count {py_ref(a)}'

            def nat(a):
                r = native_call(XD.YEARFRAC, a['a'], a['b'], a['basis'])
                return ('num', round(r[1], 9)) if r[0] == 'num' else r

            def nrm(l, m):
                r = norm(l, m)
                return ('num', round(r[1], 9)) if r[0] == 'num' and isinstance(r[1], float) else r

            def smp(x, dd, bs):
                s0, e0 = datetime.date.fromordinal(REF0 + x), datetime.date.fromordinal(REF0 + x + dd)
                return {'a': x, 'b': x + dd, 'basis': bs, 'sy': s0.year, 'sm': s0.month, 'sd': s0.day, 'ey': e0.year, 'em': e0.month, 'ed': e0.day}
            samples = [smp(x, dd, bs) for x, dd, bs in ((lo + 14, 31, 0), (lo + 100, 0, 4), (hi - 20, 45, 0), (lo + 200, -35, 4), (lo + 40, min(span, 366), 0)) if lo <= x <= hi and x + dd >= 61]
            return dict(encode=encode, bad=bad, replay=replay, norm=nrm, native=nat, samples=samples,
                        show=lambda a: f'YEARFRAC({datetime.date.fromordinal(REF0 + a["a"])}, {datetime.date.fromordinal(REF0 + a["b"])}, {a["basis"]})')
        return spec
    fspan = 1500 if tier == 'thorough' else 500
    for ycon in (1999, 2000, 2023, 2024, 2100):
        add(f'YEARFRAC[basis 0 and 4, start in {ycon}]', sp_yearfrac_30360(ycon, fspan),
            f'one date: every whole serial of the year {ycon}; the other: within {fspan} days before or after it; basis 0 and 4: (360 dy + 30 dm + dd) / 360 with the dates swapped when start > end, '
            'compared where neither day of month exceeds 27 (there the US and the European 30/360 conventions coincide); the yearfrac package\'s source is interpreted, not modelled', cost=20, timeout=600)

    def sp_yearfrac():
        f = unwrap(XD.YEARFRAC)
        basis = z3.Int('basis')

        def encode():
            leaves, it = K.explore(f, dts() + [basis], two + [z3.Or(basis == 2, basis == 3, basis >= 5, basis <= -1), basis >= -2, basis <= 7], DM.DATE_MODELS)
            return leaves, it, {'a': a_, 'b': b_, 'basis': basis}

        def bad(l):
            days = z3.If(a_ > b_, a_ - b_, b_ - a_)
            valid = z3.Or(basis == 2, basis == 3)
            if l.kind == 'raise':
                return True if l.value != 'ValueExcelError' else valid
            return z3.Or(z3.Not(valid), K.to_real(l.value) != z3.ToReal(days) / z3.If(basis == 2, z3.RealVal(360), z3.RealVal(365)))

        def replay(a):
            got = native_call(XD.YEARFRAC, a['a'], a['b'], a['basis'])
            if a['basis'] in (2, 3):
                exp = ('num', abs(a['a'] - a['b']) / (360 if a['basis'] == 2 else 365))
                ok = got[0] == 'num' and abs(got[1] - exp[1]) < 1e-9
            else:
                exp = ('raise', 'ValueExcelError')
                ok = got == exp
            return ok, f'YEARFRAC({a["a"]}, {a["b"]}, {a["basis"]}) = {got}, expected {exp}'

        def nat(a):
            r = native_call(XD.YEARFRAC, a['a'], a['b'], a['basis'])
            return ('num', round(r[1], 9)) if r[0] == 'num' else r

        def nrm(l, m):
            r = norm(l, m)
            return ('num', round(r[1], 9)) if r[0] == 'num' and isinstance(r[1], float) else r
        return dict(encode=encode, bad=bad, replay=replay, norm=nrm, native=nat, samples=[{'a': 43800, 'b': 43831, 'basis': 2}, {'a': 43831, 'b': 43800, 'basis': 3}, {'a': 100, 'b': 465, 'basis': 5}],
                    show=lambda a: f'YEARFRAC({a})')
    add('YEARFRAC[basis 2, 3]', sp_yearfrac, 'every pair of whole serials 61..2958465, basis 2 and 3 (and invalid bases -2..-1, 5..7): |days| / 360 resp. 365 with the dates swapped when start > end; #VALUE! for an invalid basis')
    return obs
