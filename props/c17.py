"""C17 — text functions agree with 1-based string reference semantics."""
from vf.ob import Ob
from props.common import *  # noqa
from xlcalculator.xlfunctions import text as TX

EXPLANATION = ('Each text function is executed symbolically on text over all code points and on symbolic positions/counts from below 1 to beyond '
               'the text length; z3 decides equality with Python slicing at 1-based positions written in the harness, and the identities named in '
               'the property are asserted directly on the implementation. Also through formulas (=LEFT(A1,B1) ...) over a compiled model.')
ASSUMPTIONS = ['P1, P2', 'texts up to the stated length over all code points; FIND over a two-letter alphabet for the repeated-substring cases']
TRUSTED = ['slicing oracles in props/c17.py']


def txt(r):
    if isinstance(r, T.Text):
        return r.value
    return r if isinstance(r, str) else None


def num(r):
    if isinstance(r, T.Number):
        return r.value
    return r if isinstance(r, (int, float)) and not isinstance(r, bool) else None


def build(tier, seed):
    thorough = tier == 'thorough'
    L = 4 if thorough else 3
    TO = 600 if thorough else 200
    obs = []

    def add(name, fn, pre, wit, bounds, cost=10, show=None, known=None, timeout=None):
        obs.append(Ob(f'c17.{name}', fn, pre=pre, witness=wit, timeout=timeout or TO, cost=cost, family='c17.' + name.split('[')[0], bounds=bounds, show=show, known=known))

    # --- LEN / UPPER / LOWER / EXACT
    def h_len(s: str) -> bool:
        return num(TX.LEN(s)) == len(s)
    add('LEN', h_len, lambda s: len(s) <= L + 2, [('abc',), ('',)], f's: all code points, length <= {L + 2}', 3)

    def h_case(s: str) -> bool:
        return txt(TX.UPPER(s)) == s.upper() and txt(TX.LOWER(s)) == s.lower()
    add('UPPER-LOWER', h_case, lambda s: len(s) <= 2, [('aB',), ('',)], 's: all code points, length <= 2', 30)

    def h_exact(s: str, t: str) -> bool:
        r = TX.EXACT(s, t)
        return isinstance(r, T.Boolean) and r.value == (s == t)
    add('EXACT', h_exact, lambda s, t: len(s) <= L and len(t) <= L, [('a', 'a'), ('a', 'A')], f's, t: all code points, length <= {L}; case-sensitive equality', 10)

    # --- LEFT / RIGHT / MID with positions and counts from below 1 to beyond the length
    def h_left(s: str, n: int) -> bool:
        r = TX.LEFT(s, n)
        if n < 0:
            return is_err(r)
        return txt(r) == s[:n]
    add('LEFT', h_left, lambda s, n: len(s) <= L and -2 <= n <= L + 2, [('abc', 2), ('abc', 0), ('abc', 9), ('abc', -1)],
        f's length <= {L}, n in -2..{L + 2}: s[:n]; n = 0 gives ""; n < 0 gives an error value', 10, lambda s, n: f'LEFT({s!r},{n})')

    def h_right(s: str, n: int) -> bool:
        r = TX.RIGHT(s, n)
        if n < 0:
            return is_err(r)
        if n == 0:
            return txt(r) == ''
        return txt(r) == s[max(len(s) - n, 0):]
    add('RIGHT', h_right, lambda s, n: len(s) <= L and -2 <= n <= L + 2, [('abc', 2), ('abc', 0), ('abc', 9), ('abc', -1)],
        f's length <= {L}, n in -2..{L + 2}: last n characters; n = 0 gives ""; n < 0 gives an error value', 10, lambda s, n: f'RIGHT({s!r},{n})')

    def h_left_right_default(s: str) -> bool:
        return txt(TX.LEFT(s)) == s[:1] and txt(TX.RIGHT(s)) == s[len(s) - 1:] if len(s) > 0 else (txt(TX.LEFT(s)) == '' and txt(TX.RIGHT(s)) == '')
    add('LEFT-RIGHT[default count]', h_left_right_default, lambda s: len(s) <= L, [('abc',), ('',)], f's length <= {L}: omitted count is 1', 5)

    def h_mid(s: str, p: int, n: int) -> bool:
        r = TX.MID(s, p, n)
        if p < 1 or n < 0:
            return is_err(r)
        return txt(r) == s[p - 1:p - 1 + n]
    add('MID', h_mid, lambda s, p, n: len(s) <= L and -1 <= p <= L + 2 and -1 <= n <= L + 2, [('abcd', 2, 2), ('abc', 1, 0), ('abc', 0, 1), ('abc', 2, -1), ('abc', 9, 1)],
        f's length <= {L}, p in -1..{L + 2}, n in -1..{L + 2}: s[p-1:p-1+n]; p < 1 or n < 0 give an error value', 20, lambda s, p, n: f'MID({s!r},{p},{n})')

    # --- identities of the statement, asserted on the implementation alone
    def h_id_lr(s: str, n: int) -> bool:
        l, r = TX.LEFT(s, n), TX.RIGHT(s, TX.LEN(s).value - n)
        return txt(TX.CONCAT(l, r)) == s
    add('identity[LEFT&RIGHT]', h_id_lr, lambda s, n: len(s) <= L and 0 <= n <= len(s), [('abc', 1), ('abc', 0), ('abc', 3)],
        f's length <= {L}, 0 <= n <= LEN(s): LEFT(s,n)&RIGHT(s,LEN(s)-n) = s', 15, lambda s, n: f's={s!r} n={n}')

    def h_id_mid(s: str, n: int) -> bool:
        return txt(TX.MID(s, 1, n)) == txt(TX.LEFT(s, n)) and txt(TX.LEFT(s, n)) is not None
    add('identity[MID=LEFT]', h_id_mid, lambda s, n: len(s) <= L and 0 <= n <= L + 2, [('abc', 2), ('abc', 0)], f's length <= {L}, n in 0..{L + 2}: MID(s,1,n) = LEFT(s,n)', 10)

    def h_id_len(a: str, b: str) -> bool:
        return num(TX.LEN(TX.CONCAT(a, b))) == num(TX.LEN(a)) + num(TX.LEN(b))
    add('identity[LEN concat]', h_id_len, lambda a, b: len(a) <= L and len(b) <= L, [('ab', 'c'), ('', '')], f'a, b length <= {L}: LEN(a&b) = LEN(a)+LEN(b)', 10)

    def h_replace(s: str, p: int, k: int, t: str) -> bool:
        r = TX.REPLACE(s, p, k, t)
        if p < 1 or k < 0:
            return is_err(r)
        ident = TX.CONCAT(TX.CONCAT(TX.LEFT(s, p - 1), t), TX.MID(s, p + k, TX.LEN(s).value))
        return txt(r) == s[:p - 1] + t + s[p - 1 + k:] and txt(ident) == txt(r)
    add('REPLACE', h_replace, lambda s, p, k, t: len(s) <= L and len(t) <= 2 and -1 <= p <= L + 2 and -1 <= k <= L + 2,
        [('abab', 1, 2, 'X'), ('abc', 2, 0, 'X'), ('abc', 9, 1, 'X'), ('abc', 0, 1, 'X'), ('abc', 1, -1, 'X')],
        f's length <= {L}, t length <= 2, p, k in -1..{L + 2}: splice at p; equals LEFT(s,p-1)&t&MID(s,p+k,LEN(s)); p < 1 or k < 0 give an error value', 40,
        lambda s, p, k, t: f'REPLACE({s!r},{p},{k},{t!r})')

    # --- FIND: first position >= p, case-sensitive
    def ref_find(t, s, p):
        i = s.find(t, p - 1)
        return None if i < 0 else i + 1

    def h_find(t: str, s: str, p: int) -> bool:
        r = TX.FIND(t, s, p)
        if p < 1 or p > len(s) + 1:
            return is_err(r)
        e = ref_find(t, s, p)
        if e is None:
            return is_err(r, XE.ValueExcelError)
        return num(r) == e
    FL = 4 if thorough else 3
    add('FIND[unicode]', h_find, lambda t, s, p: len(s) <= 2 and len(t) <= 1 and 1 <= p <= 3, [('a', 'ba', 1), ('', 'ab', 2), ('a', 'ab', 0), ('a', 'ab', 4)],
        's length <= 2, t length <= 1 over all code points, p in 1..3', 60, lambda t, s, p: f'FIND({t!r},{s!r},{p})')

    def ab(x):
        for ch in x:
            if ch not in 'abA':
                return False
        return True
    add('FIND[repeats]', h_find, lambda t, s, p: len(s) <= FL and 1 <= len(t) <= 2 and ab(s) and ab(t) and -1 <= p <= FL + 2,
        [('ab', 'abab', 2), ('b', 'aab', 1), ('A', 'aaA', 1)] if thorough else [('ab', 'bab', 2), ('b', 'aab', 1), ('A', 'aaA', 1)],
        f"s length <= {FL}, t length 1..2 over the alphabet 'abA' (repeated substrings, case), p in -1..{FL + 2} (p < 1 or p > LEN(s)+1 give an error value)", 60, lambda t, s, p: f'FIND({t!r},{s!r},{p})')

    def h_find_default(t: str, s: str) -> bool:
        r = TX.FIND(t, s)
        e = ref_find(t, s, 1)
        return is_err(r, XE.ValueExcelError) if e is None else num(r) == e
    add('FIND[default start]', h_find_default, lambda t, s: len(s) <= 3 and len(t) <= 1 and ab(s) and ab(t), [('a', 'ba'), ('b', 'aa')], "omitted start_num = 1; alphabet 'abA'", 20)

    # --- TRIM
    def ref_trim(s):
        out, prev_space = '', True
        for ch in s:
            if ch == ' ':
                if not prev_space:
                    out += ' '
                prev_space = True
            else:
                out += ch
                prev_space = False
        if out.endswith(' '):
            out = out[:len(out) - 1]
        return out

    def h_trim(s: str) -> bool:
        return txt(TX.TRIM(s)) == ref_trim(s)

    def sp(x):
        for ch in x:
            if ch not in ' ab\t':
                return False
        return True
    add('TRIM', h_trim, lambda s: len(s) <= L + 2 and sp(s), [(' a  b ',), ('',), ('   ',), ('a\tb',)],
        f"s length <= {L + 2} over the alphabet ' ab<TAB>': leading/trailing blanks removed, inner runs collapsed to one blank", 40, lambda s: f'TRIM({s!r})')

    # --- CONCAT / CONCATENATE / &
    M = mk({'A1': 'x', 'B1': 'y', 'C1': 1, 'Z1': '=A1&B1', 'Z2': '=CONCAT(A1,B1)', 'Z3': '=CONCATENATE(A1,B1)', 'Z4': '=LEFT(A1,C1)', 'Z5': '=RIGHT(A1,C1)',
            'Z6': '=MID(A1,C1,2)', 'Z7': '=LEN(A1)', 'Z8': '=A1&C1', 'Z9': '=LEN(A1&B1)', 'Y1': '=LEN(A1)', 'Y2': '=LEN(B1)'})

    def h_concat(a: str, b: str) -> bool:
        setv(M, 'Sheet1!A1', a)
        setv(M, 'Sheet1!B1', b)
        ev = Evaluator(M)
        return (txt(ev.evaluate('Sheet1!Z1')) == a + b and txt(ev.evaluate('Sheet1!Z2')) == a + b and txt(ev.evaluate('Sheet1!Z3')) == a + b
                and txt(TX.CONCAT(a, b)) == a + b and txt(TX.CONCATENATE(a, b)) == a + b and num(ev.evaluate('Sheet1!Z9')) == num(ev.evaluate('Sheet1!Y1')) + num(ev.evaluate('Sheet1!Y2')))
    add('CONCAT', h_concat, lambda a, b: len(a) <= L and len(b) <= L, [('ab', 'c'), ('', '')], f'a, b length <= {L}: &, CONCAT, CONCATENATE (formula and library forms) = a+b', 20)

    def h_formula(s: str, n: int) -> bool:
        setv(M, 'Sheet1!A1', s)
        setv(M, 'Sheet1!C1', n)
        ev = Evaluator(M)
        l, r, m, ln = ev.evaluate('Sheet1!Z4'), ev.evaluate('Sheet1!Z5'), ev.evaluate('Sheet1!Z6'), ev.evaluate('Sheet1!Z7')
        if n < 0:
            return is_err(l) and is_err(r) and is_err(m)
        okm = is_err(m) if n < 1 else txt(m) == s[n - 1:n + 1]
        return txt(l) == s[:n] and txt(r) == (s[max(len(s) - n, 0):] if n else '') and okm and num(ln) == len(s)
    add('formula[LEFT RIGHT MID LEN]', h_formula, lambda s, n: len(s) <= L and -1 <= n <= L + 1, [('abc', 2), ('abc', 0), ('abc', -1)],
        f's length <= {L} in cell A1, n in -1..{L + 1} in cell C1: =LEFT(A1,C1), =RIGHT(A1,C1), =MID(A1,C1,2), =LEN(A1)', 25, lambda s, n: f'A1={s!r} C1={n}')

    # --- numbers and booleans passed as text are converted to their text form first
    def h_num_as_text(v: int, n: int) -> bool:
        s = str(v)
        return (num(TX.LEN(v)) == len(s) and txt(TX.LEFT(v, n)) == s[:n] and txt(TX.RIGHT(v, n)) == (s[max(len(s) - n, 0):] if n else '')
                and txt(TX.MID(v, 1, n)) == s[:n] and txt(TX.CONCAT(v, v)) == s + s and txt(TX.UPPER(v)) == s)
    add('number-as-text', h_num_as_text, lambda v, n: -99 <= v <= 999 and 0 <= n <= 3, [(123, 2), (-5, 1), (0, 0)], 'v in -99..999 (rendered by str()), n in 0..3', 30,
        lambda v, n: f'v={v} n={n}')

    def h_bool_as_text(b: bool, n: int) -> bool:
        s = 'TRUE' if b else 'FALSE'
        return (num(TX.LEN(b)) == len(s) and txt(TX.LEFT(b, n)) == s[:n] and txt(TX.UPPER(b)) == s and txt(TX.CONCAT(b, 'x')) == s + 'x')
    from vf.ob import TOTAL
    add('boolean-as-text[TRUE/FALSE]', h_bool_as_text, lambda b, n: 0 <= n <= 5, [(True, 1), (False, 5), (True, 0)], 'b: bool, n in 0..5: text form TRUE / FALSE', 5,
        lambda b, n: f'LEFT({b},{n}), CONCAT({b},"x")', known={'K17-boolean-text-form': TOTAL})

    def h_bool_consistent(b: bool, n: int) -> bool:
        s = txt(T.Text.cast(b))
        return (s.upper() == ('TRUE' if b else 'FALSE') and num(TX.LEN(b)) == len(s) and txt(TX.LEFT(b, n)) == s[:n] and txt(TX.CONCAT(b, 'x')) == s + 'x'
                and txt(TX.UPPER(b)) == s.upper() and txt(TX.MID(b, 1, n)) == s[:n])
    add('boolean-as-text[library form]', h_bool_consistent, lambda b, n: 0 <= n <= 5, [(True, 1), (False, 5)],
        'b: bool, n in 0..5: every text function sees the same text form of the boolean (the library\'s Text.cast), which is TRUE/FALSE up to letter case', 5)
    # --- the text form of a value does not depend on which equal-looking value was converted before (1, TRUE, 1.0; 0, FALSE)
    LOOK = [1, True, 1.0, 0, False, '1']
    ALONE = {0: ('1', 1), 1: (None, 4), 2: ('1.0', 3), 3: ('0', 1), 4: (None, 5), 5: ('1', 1)}

    def h_text_history(i: int, j: int, n: int) -> bool:
        i, j = concretize(i, 0, len(LOOK) - 1), concretize(j, 0, len(LOOK) - 1)
        x, y = LOOK[i], LOOK[j]
        TX.LEN(x), TX.LEFT(x, 1), TX.UPPER(x), TX.CONCAT(x, '|')
        s, ln = ALONE[j]
        if s is None:
            s = txt(T.Text(str(T.Boolean(y))))            # the library's own text form of a boolean (see K17)
        return (num(TX.LEN(y)) == ln and txt(TX.LEFT(y, n)) == s[:n] and txt(TX.UPPER(y)) == s.upper() and txt(TX.CONCAT(y, '|')) == s + '|'
                and txt(TX.MID(y, 1, n)) == s[:n])
    add('text-form[history independence]', h_text_history, lambda i, j, n: 0 <= i < len(LOOK) and 0 <= j < len(LOOK) and 0 <= n <= 5, [(0, 1, 4), (1, 0, 1), (3, 4, 5), (2, 0, 3)],
        f'all ordered pairs of {LOOK} (forked), n in 0..5: LEN / LEFT / UPPER / CONCAT / MID of the second value give its own text form whatever was converted just before', 10,
        lambda i, j, n: f'text functions on {LOOK[i % 6]!r}, then on {LOOK[j % 6]!r} (n={n})')
    return obs
