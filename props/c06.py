"""C06 — circular references are reported, acyclic sharing is never flagged."""
import itertools
import sys

from vf.ob import Ob
from props.common import *  # noqa

EXPLANATION = ('Dependency graphs on n cells are explored by path forking: every cell\'s formula is selected by a symbolic integer from '
               'pre-parsed alternatives (constant, =Xj, =Xj+Xk, =Xj+Xj, =SUM(Xj:Xk)), the constants are symbolic; the oracle is reachability '
               'of a cycle from the evaluated cell computed by a DFS in the harness. A cycle must raise an exception whose text mentions a '
               'cycle within a bounded number of evaluation steps; no cycle must give the reference value and never a cycle report. '
               'Failure reporting: chains of symbolic depth ending in an unknown function / a Python-level error have a message length '
               'bounded by a fixed polynomial in the depth.')
ASSUMPTIONS = ['P1, P2', 'step bound instead of wall-clock time: the recursion limit is lowered to 400 frames during a harness run, a cycle must be '
               'reported before it is hit (RecursionError counts as a failure to report)', 'graphs up to 4 cells (quick: 3)']
TRUSTED = ['reachability oracle (DFS) in props/c06.py']

NAMES = ['A1', 'A2', 'A3', 'A4']


def alternatives(n, rich=True):
    """Formula alternatives for a cell; deps = list of referenced cell indices."""
    alts = [('const', None, [])]
    for j in range(n):
        alts.append((f'={NAMES[j]}', None, [j]))
    if rich:
        for j in range(n):
            alts.append((f'={NAMES[j]}+{NAMES[j]}', None, [j]))
    for j in range(n):
        for k in range(j + 1, n):
            alts.append((f'={NAMES[j]}+{NAMES[k]}', None, [j, k]))
            if rich:
                alts.append((f'=SUM({NAMES[j]}:{NAMES[k]})', None, list(range(j, k + 1))))
    return alts


class Graph:
    """One pre-compiled model per cell alternative is not possible (formulas interact only by reference), so the model
    holds, for each cell i, ALL alternatives as XLFormula objects and the harness swaps cell.formula per path."""

    def __init__(self, n, rich=True):
        self.n = n
        self.alts = alternatives(n, rich)
        # compile one model per alternative assignment "all cells use alternative a" just to get parsed formulas
        self.formulas = []   # [cell][alt] -> XLFormula or None
        for i in range(n):
            row = []
            for (text, _, deps) in self.alts:
                if text == 'const':
                    row.append(None)
                else:
                    m = mk({NAMES[i]: text})
                    row.append(m.cells['Sheet1!' + NAMES[i]].formula)
            self.formulas.append(row)
        cells = {nm: 1 for nm in NAMES[:n]}
        self.model = mk(cells)
        # ranges used by SUM alternatives must exist in the model
        from xlcalculator import xltypes
        for j in range(n):
            for k in range(j + 1, n):
                addr = f'Sheet1!{NAMES[j]}:{NAMES[k]}'
                self.model.ranges[addr] = xltypes.XLRange(addr, addr)

    def install(self, choice, consts):
        for i in range(self.n):
            c = self.model.cells['Sheet1!' + NAMES[i]]
            f = self.formulas[i][choice[i]]
            c.formula = f
            c.value = consts[i]

    def deps(self, choice):
        return [self.alts[choice[i]][2] for i in range(self.n)]


def has_cycle_from(deps, start):
    color = {}

    def dfs(u):
        color[u] = 1
        for v in deps[u]:
            if color.get(v) == 1:
                return True
            if v not in color and dfs(v):
                return True
        color[u] = 2
        return False
    return dfs(start)


def ref_value(g, choice, consts, i, memo):
    if i in memo:
        return memo[i]
    text, _, deps = g.alts[choice[i]]
    if text == 'const':
        v = consts[i]
    elif text.startswith('=SUM('):
        v = 0
        for j in deps:
            v = v + ref_value(g, choice, consts, j, memo)
    elif '+' in text:
        a, b = text[1:].split('+')
        v = ref_value(g, choice, consts, NAMES.index(a), memo) + ref_value(g, choice, consts, NAMES.index(b), memo)
    else:
        v = ref_value(g, choice, consts, deps[0], memo)
    memo[i] = v
    return v


class limited_recursion:
    def __init__(self, extra=400):
        self.extra = extra

    def __enter__(self):
        self.old = sys.getrecursionlimit()
        f = sys._getframe()
        depth = 0
        while f is not None:
            depth += 1
            f = f.f_back
        sys.setrecursionlimit(depth + self.extra)

    def __exit__(self, *a):
        sys.setrecursionlimit(self.old)


GRAPHS = {}


def graph_obs(n, timeout, rich):
    """One obligation per (start cell, alternative of the first cell[, of the second cell]); the alternatives of the
    remaining cells are symbolic integers (forked), the constants are symbolic ints."""
    if (n, rich) not in GRAPHS:
        GRAPHS[(n, rich)] = Graph(n, rich)
    g = GRAPHS[(n, rich)]
    na = len(g.alts)
    nfix = n - 2           # number of concretely fixed cells; two cells stay symbolic
    obs = []

    def body(choice, consts, start):
        g.install(choice, consts)
        deps = g.deps(choice)
        cyc = has_cycle_from(deps, start)
        with limited_recursion(150):
            try:
                r = Evaluator(g.model).evaluate('Sheet1!' + NAMES[start])
            except RecursionError:
                return False                      # unbounded recursion instead of a report
            except Exception as e:
                if not cyc:
                    return False                  # failure (or cycle report) on an acyclic graph
                msg = str(e)
                return 'ycle' in msg and 'maximum recursion' not in msg
        if cyc:
            return False                          # a cycle was not reported
        exp = ref_value(g, choice, consts, start, {})
        return val(r) == exp

    for start in range(n):
        for fixed in itertools.product(range(na), repeat=nfix):
            def mk_h(start, fixed):
                if n == 3:
                    def h(c1: int, c2: int, v0: int, v1: int, v2: int) -> bool:
                        choice = list(fixed) + [concretize(c1, 0, na - 1), concretize(c2, 0, na - 1)]
                        return body(choice, (v0, v1, v2), start)
                    return h, (lambda c1, c2, v0, v1, v2: 0 <= c1 < na and 0 <= c2 < na)

                def h4(c2: int, c3: int, v0: int, v1: int, v2: int, v3: int) -> bool:
                    choice = list(fixed) + [concretize(c2, 0, na - 1), concretize(c3, 0, na - 1)]
                    return body(choice, (v0, v1, v2, v3), start)
                return h4, (lambda c2, c3, v0, v1, v2, v3: 0 <= c2 < na and 0 <= c3 < na)
            h, pre = mk_h(start, fixed)

            def show(*a, fixed=fixed, start=start):
                choice = list(fixed) + list(a[:2])
                consts = a[2:]
                return '; '.join(f'{NAMES[i]}={g.alts[choice[i]][0] if g.alts[choice[i]][0] != "const" else consts[i]}' for i in range(n)) + f'; evaluate {NAMES[start]}'
            fx = ','.join(g.alts[f][0] for f in fixed)
            wit = [(0, 0) + tuple(range(5, 5 + n)), (1, 2) + tuple(range(5, 5 + n)), (na - 1, 1) + tuple(range(1, 1 + n))]
            obs.append(Ob(f'c06.graphs[{n} cells,{"rich" if rich else "plain"},start {NAMES[start]},{fx}]', h, pre=pre, witness=wit, timeout=timeout,
                          cost=na * na / 8, family=f'c06.graphs{n}',
                          bounds=f'{n} cells, {na} formula alternatives per cell ' + ('(constant, =Xj incl. self reference, =Xj+Xj, =Xj+Xk, =SUM(Xj:Xk))' if rich else '(constant, =Xj incl. self reference, =Xj+Xk)')
                                 + f'; first {nfix} cell(s) fixed per obligation, the other two by forking ({na * na} graphs); constants: all ints; evaluate {NAMES[start]}; '
                                 'cycle reachable <=> exception mentioning a cycle within 150 extra interpreter frames; otherwise the reference value',
                          show=show))
    return obs


def chain_obs(timeout):
    """Failure at depth d of a chain: message size polynomial in d; cycles of every length and entry point."""
    obs = []
    DMAX = 20
    # chain X1 <- X2 <- ... <- Xd, the failure sits in X1
    kinds = {'unknown function': '=NOSUCHFUNC(1)', 'python error': '=LEFT()', 'error value': '=1/0',
             'unknown function via IF': '=NOSUCHFUNC(1)', 'python error via AND/OR/NOT': '=LEFT()', 'cycle via IF': '=IF(TRUE,A1,0)'}
    hops = {'unknown function via IF': ['=IF(TRUE,A{p},0)', '=IF(FALSE,0,A{p})+0'],
            'python error via AND/OR/NOT': ['=AND(TRUE,A{p})', '=OR(FALSE,A{p})', '=NOT(A{p})'],
            'cycle via IF': ['=IF(TRUE,A{p},0)']}
    models = {}
    for kind, f in kinds.items():
        cells = {'A1': f}
        for d in range(2, DMAX + 1):
            hs = hops.get(kind, ['=A{p}+1'])
            cells[f'A{d}'] = hs[d % len(hs)].format(p=d - 1)
        models[kind] = mk(cells)

    def mk_h(kind):
        m = models[kind]

        def h(d: int) -> bool:
            d = concretize(d, 1, DMAX)
            try:
                r = Evaluator(m).evaluate(f'Sheet1!A{d}')
            except RecursionError:
                return False
            except Exception as e:
                if kind == 'error value':
                    return False
                if kind.startswith('cycle') and 'ycle' not in str(e):
                    return False
                return len(str(e)) <= 400 + 40 * d * d
            return kind == 'error value' and is_err(r, XE.DivZeroExcelError)
        return h
    for kind in kinds:
        obs.append(Ob(f'c06.failure-message[{kind}]', mk_h(kind), pre=lambda d: 1 <= d <= DMAX, witness=[(1,), (6,), (20,)], timeout=timeout, cost=10, family='c06.failure',
                      bounds=f'chain depth d in 1..{DMAX} (forked); message length <= 400 + 40 d^2; an Excel error value travels the chain as a value',
                      show=lambda d, kind=kind: f'{kind} at the bottom of a chain of depth {d}'))

    # cycles of length L entered from a tail of length t: A1 -> A2 -> ... -> A(t+L) -> A(t+1)
    LMAX, TMAX = 5, 3
    cyc_models = {}
    for L in range(1, LMAX + 1):
        for t in range(0, TMAX + 1):
            for via_range in (False, True):
                n = t + L
                cells = {}
                for i in range(1, n):
                    cells[f'A{i}'] = f'=A{i + 1}+1'
                back = f'A{t + 1}'
                cells[f'A{n}'] = (f'=SUM({back}:{back})' if via_range else f'={back}*2')
                cells['B1'] = 5
                try:
                    cyc_models[(L, t, via_range)] = mk(cells)
                except Exception:
                    pass

    def h_cyc(L: int, t: int, via_range: bool, entry: int) -> bool:
        L, t = concretize(L, 1, LMAX), concretize(t, 0, TMAX)
        m = cyc_models[(L, t, True if via_range else False)]
        entry = concretize(entry, 1, L + t)
        with limited_recursion(200):
            try:
                Evaluator(m).evaluate(f'Sheet1!A{entry}')
            except RecursionError:
                return False
            except Exception as e:
                msg = str(e)
                return 'ycle' in msg and 'maximum recursion' not in msg and len(msg) <= 400 + 60 * (L + t) * (L + t)
        return False
    obs.append(Ob('c06.cycles[length x tail x entry]', h_cyc, pre=lambda L, t, via_range, entry: 1 <= L <= LMAX and 0 <= t <= TMAX and 1 <= entry <= L + t,
                  witness=[(1, 0, False, 1), (3, 2, True, 1), (5, 3, False, 8)], timeout=timeout, cost=20, family='c06.cycles',
                  bounds=f'cycle length 1..{LMAX}, tail 0..{TMAX}, closed through a reference or through a range, every entry point (forked); '
                         'must raise an exception mentioning a cycle within 200 extra interpreter frames, message length polynomial',
                  show=lambda L, t, vr, e: f'cycle of length {L} after a tail of {t}, closed via {"range" if vr else "reference"}, evaluate A{e}'))

    # acyclic sharing: diamonds and repeated references of depth d never produce a cycle report
    dm = {'A1': 1}
    for d in range(2, 11):
        dm[f'A{d}'] = f'=A{d - 1}+A{d - 1}'
        dm[f'B{d}'] = f'=SUM(A{d - 1}:A{d})+A{d - 1}*A{d}'
    DM = mk(dm)

    def h_share(a: int, d: int) -> bool:
        d = concretize(d, 2, 10)
        setv(DM, 'Sheet1!A1', a)
        with limited_recursion(250):
            r = Evaluator(DM).evaluate(f'Sheet1!A{d}')
            r2 = Evaluator(DM).evaluate(f'Sheet1!B{d}')
        x = a * 2 ** (d - 1)
        y = a * 2 ** (d - 2)
        return num_is(r, x) and num_is(r2, x + y + y * x)
    obs.append(Ob('c06.sharing[repeated refs]', h_share, pre=lambda a, d: 2 <= d <= 10 and -100 <= a <= 100, witness=[(3, 2), (1, 10)], timeout=timeout, cost=20, family='c06.sharing',
                  bounds='A(d) = A(d-1)+A(d-1) for d in 2..10 (forked), A1 in -100..100: value a*2^(d-1), never a cycle report, within 250 extra interpreter frames',
                  show=lambda a, d: f'A1={a}, evaluate A{d} and B{d}'))
    # one evaluator across a history in which an input opens and closes a cycle through IF: every evaluation answers for the
    # graph as it is now (no stale "acyclic" knowledge, no stale chain after a reported cycle)
    TM = mk({'A1': '=IF(C1>0,B1,7)', 'B1': '=A1+1', 'C1': 0, 'D1': '=A1+B1'})
    TCELLS = ['A1', 'B1', 'D1']
    TEXP = [7, 8, 15]

    def h_toggle(c1: int, c2: int, e1: int, e2: int, fresh_first: bool) -> bool:
        setv(TM, 'Sheet1!C1', 0)
        for a in TCELLS:
            TM.cells['Sheet1!' + a].value = 0
        ev = Evaluator(TM)
        if not fresh_first:
            for a in TCELLS:                                   # everything evaluated once while the cycle is open
                ev.evaluate('Sheet1!' + a)
        for c, e in ((c1, e1), (c2, e2)):
            e = concretize(e, 0, 2)
            ev.set_cell_value('Sheet1!C1', c)
            with limited_recursion(200):
                try:
                    r = ev.evaluate('Sheet1!' + TCELLS[e])
                except RecursionError:
                    return False
                except Exception as ex:
                    if not c > 0:
                        return False                           # cycle report (or failure) while the cycle is open
                    msg = str(ex)
                    if not ('ycle' in msg and 'maximum recursion' not in msg):
                        return False
                    continue
            if c > 0:
                return False                                   # closed cycle not reported
            if not num_is(r, TEXP[e]):
                return False
        return True
    obs.append(Ob('c06.toggle[cycle opened and closed by an input, one evaluator]', h_toggle,
                  pre=lambda c1, c2, e1, e2, ff: 0 <= e1 <= 2 and 0 <= e2 <= 2,
                  witness=[(0, 1, 0, 1, False), (1, 0, 2, 2, True), (5, 0, 1, 1, False)], timeout=timeout, cost=30, family='c06.toggle',
                  bounds='A1=IF(C1>0,B1,7), B1=A1+1, D1=A1+B1; one evaluator; optionally all cells evaluated first; then 2 x (set C1 to any int; evaluate A1, B1 or D1 (forked)): '
                         'cycle report iff C1>0 at that moment, otherwise 7 / 8 / 15; a reported cycle does not poison later evaluations',
                  show=lambda c1, c2, e1, e2, ff: ('' if ff else 'evaluate all with C1=0; ') + '; '.join(f'set C1={c}; evaluate {TCELLS[e % 3]}' for c, e in ((c1, e1), (c2, e2)))))
    return obs


def build(tier, seed):
    thorough = tier == 'thorough'
    obs = graph_obs(3, 300, True)
    if thorough:
        obs += graph_obs(4, 300, False)
    obs += chain_obs(300)
    return obs
