"""C14 — aggregates over ranges equal the reference fold of the addressed cells."""
import itertools
from typing import Optional, Union

from vf.ob import Ob
from props.common import *  # noqa

EXPLANATION = ('SUM, AVERAGE, MIN, MAX, COUNT, COUNTA and SUMPRODUCT are evaluated through compiled formulas over rectangles whose cells are symbolic '
               '(int / blank / non-numeric text; the type pattern is explored by forking, the values are solver-quantified), mixed with scalar '
               'arguments, split into sub-ranges and permuted; z3 decides equality with folds written in the harness over the symbolic cell list '
               '(mean compared by cross-multiplication), SUM additivity over every split, permutation invariance and MIN <= AVERAGE <= MAX.')
ASSUMPTIONS = ['P1, P2, P6', 'text cells are non-numeric (first character a letter, length <= 2); numeric-looking text and booleans inside ranges are outside the statement',
               'cell values are ints']
TRUSTED = ['fold oracles in props/c14.py']

CV = Union[int, None, str]


def nonnum_text(v):
    if not isinstance(v, str):
        return True
    if not (1 <= len(v) <= 2):
        return False
    o = ord(v[0])
    if not ((65 <= o <= 90) or (97 <= o <= 122)):
        return False
    for ch in v:
        if not (33 <= ord(ch) <= 126):
            return False
    # texts that Excel/xlcalculator would read as booleans or numbers are excluded: none of length <= 2 starting with a letter
    return True


def ints(vs):
    return [v for v in vs if isinstance(v, int) and not isinstance(v, bool)]


def mean_is(r, xs):
    """r == sum(xs)/len(xs) by cross-multiplication."""
    if not isinstance(r, T.Number):
        return isinstance(r, (int, float)) and r * len(xs) == sum(xs)
    return bool(r.value * len(xs) == sum(xs))


def nval(r):
    if isinstance(r, T.Number):
        return r.value
    if isinstance(r, (int, float)) and not isinstance(r, bool):
        return r
    return None


def rect(nr, nc, r0=1, c0=1):
    return [[f'{"ABCDEFG"[c0 - 1 + j]}{r0 + i}' for j in range(nc)] for i in range(nr)]


def mk_sig(n, body, typ):
    """Fixed-arity wrappers (CrossHair needs real signatures)."""
    if n == 1:
        def h(v0) -> bool: return body((v0,))
    elif n == 2:
        def h(v0, v1) -> bool: return body((v0, v1))
    elif n == 3:
        def h(v0, v1, v2) -> bool: return body((v0, v1, v2))
    elif n == 4:
        def h(v0, v1, v2, v3) -> bool: return body((v0, v1, v2, v3))
    elif n == 5:
        def h(v0, v1, v2, v3, v4) -> bool: return body((v0, v1, v2, v3, v4))
    elif n == 6:
        def h(v0, v1, v2, v3, v4, v5) -> bool: return body((v0, v1, v2, v3, v4, v5))
    elif n == 8:
        def h(v0, v1, v2, v3, v4, v5, v6, v7) -> bool: return body((v0, v1, v2, v3, v4, v5, v6, v7))
    elif n == 9:
        def h(v0, v1, v2, v3, v4, v5, v6, v7, v8) -> bool: return body((v0, v1, v2, v3, v4, v5, v6, v7, v8))
    else:
        raise ValueError(n)
    h.__annotations__ = {f'v{i}': typ for i in range(n)}
    h.__annotations__['return'] = bool
    return h


def mk_fold_h(body, n):
    U = Optional[int]
    if n == 1:
        def h(v0: U, tp: int) -> bool: return body((v0,), tp)
    elif n == 2:
        def h(v0: U, v1: U, tp: int) -> bool: return body((v0, v1), tp)
    elif n == 3:
        def h(v0: U, v1: U, v2: U, tp: int) -> bool: return body((v0, v1, v2), tp)
    elif n == 4:
        def h(v0: U, v1: U, v2: U, v3: U, tp: int) -> bool: return body((v0, v1, v2, v3), tp)
    elif n == 6:
        def h(v0: U, v1: U, v2: U, v3: U, v4: U, v5: U, tp: int) -> bool: return body((v0, v1, v2, v3, v4, v5), tp)
    else:
        return None
    return h


def fold_obs(shapes, timeout, with_order=True):
    """Cells Optional[int]; one non-numeric text cell ("ab") at a symbolic position tp (tp = -1: none)."""
    obs = []
    U = Optional[int]
    for nr, nc in shapes:
        addrs = rect(nr, nc)
        flat = [a for row in addrs for a in row]
        n = len(flat)
        rng = f'{flat[0]}:{flat[-1]}'
        cells = {a: 1 for a in flat}
        cells.update({'Z1': f'=SUM({rng})', 'Z2': f'=AVERAGE({rng})', 'Z3': f'=MIN({rng})', 'Z4': f'=MAX({rng})', 'Z5': f'=COUNT({rng})', 'Z6': f'=COUNTA({rng})',
                      'Z7': f'=SUM({rng},10,{flat[0]})', 'Z8': f'=MAX(7,{rng})', 'Z9': f'=COUNT({rng},5,"x")'})
        M = mk(cells)

        def mk_body(M, flat, n):
            def body(vs, tp):
                tp = concretize(tp, -1, n - 1)
                vs = list(vs)
                if tp >= 0:
                    vs[tp] = 'ab'
                for a, v in zip(flat, vs):
                    setv(M, 'Sheet1!' + a, v)
                ev = Evaluator(M)
                xs = ints(vs)
                nonblank = [v for v in vs if v is not None]
                if not num_is(ev.evaluate('Sheet1!Z1'), sum(xs)):
                    return False
                if nval(ev.evaluate('Sheet1!Z5')) != len(xs) or nval(ev.evaluate('Sheet1!Z6')) != len(nonblank):
                    return False
                first = vs[0] if isinstance(vs[0], int) else 0
                if not num_is(ev.evaluate('Sheet1!Z7'), sum(xs) + 10 + first):
                    return False
                if nval(ev.evaluate('Sheet1!Z9')) != len(xs) + 1:
                    return False
                if not with_order:
                    return True
                mx = nval(ev.evaluate('Sheet1!Z8'))
                exp_mx = 7
                for x in xs:
                    if x > exp_mx:
                        exp_mx = x
                if mx != exp_mx:
                    return False
                if xs:
                    lo, hi = xs[0], xs[0]
                    for x in xs:
                        if x < lo:
                            lo = x
                        if x > hi:
                            hi = x
                    avg = ev.evaluate('Sheet1!Z2')
                    if not (mean_is(avg, xs) and nval(ev.evaluate('Sheet1!Z3')) == lo and nval(ev.evaluate('Sheet1!Z4')) == hi):
                        return False
                    a = nval(avg)
                    return lo <= a <= hi
                # no number at all: MIN/MAX must not raise (0, as in Excel)
                return nval(ev.evaluate('Sheet1!Z3')) == 0 and nval(ev.evaluate('Sheet1!Z4')) == 0
            return body
        h = mk_fold_h(mk_body(M, flat, n), n)
        if h is None:
            continue
        wit = [tuple(range(1, n + 1)) + (-1,), tuple([None] * n) + (-1,), tuple([(None if i % 2 else i - 1) for i in range(n)]) + (0,), tuple(range(1, n + 1)) + (n - 1,)]
        obs.append(Ob(f'c14.fold[{nr}x{nc}' + ('' if with_order else ',sum+count') + ']', h, pre=lambda *a, n=n: -1 <= a[-1] < n, witness=wit, timeout=timeout,
                      cost=(2 ** n) * (n + 1) * (3 if with_order else 1), family='c14.fold',
                      bounds=f'rectangle {nr}x{nc}, every cell Optional[int] (blank pattern by forking; ints unbounded) and a non-numeric text cell at any one position or none (forked): '
                             + ('SUM, AVERAGE (cross-multiplied), MIN, MAX, COUNT, COUNTA, mixed with scalar arguments; MIN <= AVERAGE <= MAX' if with_order else 'SUM, COUNT, COUNTA, mixed with scalar arguments'),
                      show=lambda *a, rng=rng: f'{rng} = {a[:-1]!r}, text cell at position {a[-1]}'))
    return obs


def split_obs(timeout, thorough):
    """SUM additive over every split of a rectangle into two sub-ranges; argument order; content permutation."""
    obs = []
    U = Optional[int]
    flat = ['A1', 'B1', 'A2', 'B2']
    cells = {a: 1 for a in flat}
    splits = {'rows': ('A1:B1', 'A2:B2'), 'cols': ('A1:A2', 'B1:B2')}
    k = 1
    for nm, (p, q_) in splits.items():
        cells[f'Z{k}'] = f'=SUM({p})+SUM({q_})'
        cells[f'Y{k}'] = f'=SUM({q_},{p})'
        cells[f'X{k}'] = f'=COUNT({p},{q_})'
        cells[f'W{k}'] = f'=MAX({q_},{p})'
        cells[f'V{k}'] = f'=MIN({p},{q_})'
        cells[f'U{k}'] = f'=AVERAGE({q_},{p})'
        k += 1
    cells.update({'T1': '=SUM(A1:B2)', 'T2': '=SUM(B2,A2,B1,A1)', 'T3': '=MAX(A1:B2)', 'T4': '=MIN(A1:B2)', 'T5': '=COUNT(A1:B2)', 'T6': '=AVERAGE(A1:B2)',
                  'T7': '=MAX(B2,A1:A2,B1)', 'T8': '=AVERAGE(A1,B1,A2,B2)'})
    M = mk(cells)

    def mk_split(kk):
        def h(v0: U, v1: U, v2: U, v3: U) -> bool:
            vs = (v0, v1, v2, v3)
            for a, v in zip(flat, vs):
                setv(M, 'Sheet1!' + a, v)
            ev = Evaluator(M)
            xs = ints(vs)
            if not num_is(ev.evaluate('Sheet1!T1'), sum(xs)):
                return False
            if kk == 0:
                # argument order / scalars instead of a range
                mx = nval(ev.evaluate('Sheet1!T3'))
                if not num_is(ev.evaluate('Sheet1!T2'), sum(xs)) or nval(ev.evaluate('Sheet1!T7')) != mx or nval(ev.evaluate('Sheet1!T5')) != len(xs):
                    return False
                if xs and not mean_is(ev.evaluate('Sheet1!T6'), xs):
                    return False
                if len(xs) == 4:
                    # blanks given directly as scalars count as 0, so compare only when all four are numbers
                    return mean_is(ev.evaluate('Sheet1!T8'), xs)
                return True
            mx, mn, cnt = nval(ev.evaluate('Sheet1!T3')), nval(ev.evaluate('Sheet1!T4')), nval(ev.evaluate('Sheet1!T5'))
            if not num_is(ev.evaluate(f'Sheet1!Z{kk}'), sum(xs)) or not num_is(ev.evaluate(f'Sheet1!Y{kk}'), sum(xs)):
                return False
            if nval(ev.evaluate(f'Sheet1!X{kk}')) != cnt or nval(ev.evaluate(f'Sheet1!W{kk}')) != mx or nval(ev.evaluate(f'Sheet1!V{kk}')) != mn:
                return False
            if xs and not mean_is(ev.evaluate(f'Sheet1!U{kk}'), xs):
                return False
            return True
        return h
    for kk, nm in ((0, 'argument order'), (1, 'split into rows'), (2, 'split into columns')):
        obs.append(Ob(f'c14.split+order[2x2,{nm}]', mk_split(kk), witness=[(1, 2, 3, 4), (None, 2, None, 4), (None, None, None, None)], timeout=timeout, cost=150, family='c14.split',
                      bounds='rectangle 2x2 with Optional[int] cells: ' + ('SUM, MAX, COUNT, AVERAGE invariant under argument order and under replacing the range by scalar arguments' if kk == 0 else
                                                                          f'{nm}: SUM additive over the two sub-ranges; SUM, COUNT, MAX, MIN, AVERAGE of the two sub-range arguments (both orders) equal those of the whole range'),
                      show=lambda *vs: f'A1:B2 (row-major) = {vs!r}'))

    # permutation of contents within a range: swap two symbolic positions on a second model copy
    M2 = mk(cells)

    def h_perm(v0: U, v1: U, v2: U, v3: U, i: int, j: int) -> bool:
        vs = [v0, v1, v2, v3]
        i, j = concretize(i, 0, 3), concretize(j, 0, 3)
        ws = list(vs)
        ws[i], ws[j] = ws[j], ws[i]
        for a, v, w in zip(flat, vs, ws):
            setv(M, 'Sheet1!' + a, v)
            setv(M2, 'Sheet1!' + a, w)
        e1, e2 = Evaluator(M), Evaluator(M2)
        xs = ints(vs)
        for z in ('T1', 'T5', 'T6', 'Z1', 'Z2'):
            if not xs and z == 'T6':
                continue
            r1, r2 = e1.evaluate('Sheet1!' + z), e2.evaluate('Sheet1!' + z)
            if z == 'T6':
                if not (mean_is(r1, xs) and mean_is(r2, xs)):
                    return False
            elif nval(r1) != nval(r2) or nval(r1) is None:
                return False
        return True
    obs.append(Ob('c14.permute-contents[2x2 sum count average]', h_perm, pre=lambda v0, v1, v2, v3, i, j: 0 <= i < j <= 3, witness=[(1, 2, 3, 4, 0, 3), (None, 2, None, 4, 1, 2)],
                  timeout=timeout, cost=100, family='c14.split', bounds='swap any two cells (i < j, forked) of a 2x2 range of Optional[int] cells: SUM, COUNT, AVERAGE unchanged',
                  show=lambda *a: f'A1:B2 = {a[:4]!r}, swap positions {a[4]},{a[5]}'))

    MR = mk({'A1': 1, 'B1': 1, 'C1': 1, 'T3': '=MAX(A1:C1)', 'T4': '=MIN(A1:C1)'})
    MR2 = mk({'A1': 1, 'B1': 1, 'C1': 1, 'T3': '=MAX(A1:C1)', 'T4': '=MIN(A1:C1)'})

    def h_perm2(v0: U, v1: U, v2: U, i: int, j: int) -> bool:
        vs = [v0, v1, v2]
        i, j = concretize(i, 0, 2), concretize(j, 0, 2)
        ws = list(vs)
        ws[i], ws[j] = ws[j], ws[i]
        for a, v, w in zip(('A1', 'B1', 'C1'), vs, ws):
            setv(MR, 'Sheet1!' + a, v)
            setv(MR2, 'Sheet1!' + a, w)
        e1, e2 = Evaluator(MR), Evaluator(MR2)
        return nval(e1.evaluate('Sheet1!T3')) == nval(e2.evaluate('Sheet1!T3')) and nval(e1.evaluate('Sheet1!T4')) == nval(e2.evaluate('Sheet1!T4'))
    obs.append(Ob('c14.permute-contents[1x3 max min]', h_perm2, pre=lambda v0, v1, v2, i, j: 0 <= i < j <= 2, witness=[(1, 2, 3, 0, 2), (None, 2, None, 0, 1)],
                  timeout=timeout, cost=60, family='c14.split', bounds='swap any two cells of a 1x3 range of Optional[int] cells: MAX, MIN unchanged',
                  show=lambda *a: f'A1:C1 = {a[:3]!r}, swap positions {a[3]},{a[4]}'))
    return obs


def sumproduct_obs(timeout):
    obs = []
    M = mk({'A1': 1, 'A2': 1, 'A3': 1, 'B1': 1, 'B2': 1, 'B3': 1, 'C1': 1, 'C2': 1, 'Z1': '=SUMPRODUCT(A1:A3,B1:B3)', 'Z2': '=SUMPRODUCT(A1:A2,B1:B3)', 'Z3': '=SUMPRODUCT(A1:B1,A1:A2)',
            'Z4': '=SUMPRODUCT(A1:B2,B1:C2)', 'Z5': '=SUMPRODUCT(A1:A3)', 'Z6': '=SUMPRODUCT(B1:B3,A1:A3)', 'Z7': '=SUMPRODUCT(A1:A2,B1:B2,C1:C2)'})
    U = Optional[int]

    def z(v):
        return 0 if v is None else v

    def h(a1: U, a2: U, a3: U, b1: U, b2: U, b3: U, c1: int, c2: int) -> bool:
        for k, v in (('A1', a1), ('A2', a2), ('A3', a3), ('B1', b1), ('B2', b2), ('B3', b3), ('C1', c1), ('C2', c2)):
            setv(M, 'Sheet1!' + k, v)
        ev = Evaluator(M)
        sp = z(a1) * z(b1) + z(a2) * z(b2) + z(a3) * z(b3)
        return (num_is(ev.evaluate('Sheet1!Z1'), sp) and num_is(ev.evaluate('Sheet1!Z6'), sp) and is_err(ev.evaluate('Sheet1!Z2'), XE.ValueExcelError)
                and is_err(ev.evaluate('Sheet1!Z3'), XE.ValueExcelError) and num_is(ev.evaluate('Sheet1!Z4'), z(a1) * z(b1) + z(b1) * c1 + z(a2) * z(b2) + z(b2) * c2)
                and num_is(ev.evaluate('Sheet1!Z5'), z(a1) + z(a2) + z(a3)) and num_is(ev.evaluate('Sheet1!Z7'), z(a1) * z(b1) * c1 + z(a2) * z(b2) * c2))
    obs.append(Ob('c14.SUMPRODUCT', h, pre=lambda *v: all(x is None or -100 <= x <= 100 for x in v), witness=[(1, 2, 3, 4, 5, 6, 7, 8), (None, 2, 3, 4, None, 6, 1, 1)],
                  timeout=timeout, cost=120, family='c14.sumproduct',
                  bounds='SUMPRODUCT of two 3x1 columns, 2x2 blocks, three 2x1 columns, a single range; cells Optional[int] in -100..100 (blank = 0); differently shaped ranges give #VALUE!',
                  show=lambda *v: f'A1:A3={v[:3]!r} B1:B3={v[3:6]!r} C1:C2={v[6:]!r}'))
    return obs


def build(tier, seed):
    thorough = tier == 'thorough'
    obs = []
    if thorough:
        obs += fold_obs([(1, 1), (1, 2), (2, 1), (2, 2), (1, 3), (3, 1)], 2400)
        obs += fold_obs([(2, 3), (3, 2)], 2400, with_order=False)
    else:
        obs += fold_obs([(1, 1), (1, 2), (2, 1), (1, 3)], 600)
        obs += fold_obs([(2, 2)], 600, with_order=False)
    obs += split_obs(1800 if thorough else 600, thorough)
    obs += sumproduct_obs(900)
    return obs
