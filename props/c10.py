"""C10 — IF/AND/OR/NOT select lazily and follow Excel's truth rules."""
from typing import Optional, Union

from vf.ob import Ob
from props.common import *  # noqa

EXPLANATION = ('Formulas with IF/AND/OR/NOT (nested to depth 2, with branches that would fail if evaluated: 1/0, unknown function, circular reference) are '
               'compiled once; the truth-carrying cells are symbolic over bool/int/blank. A spy function registered in the evaluator\'s namespace '
               'records which branch expressions were evaluated. z3 decides on every path the selected value, the spy log, the truth tables of '
               'AND/OR over scalars and ranges ignoring blanks, and error propagation.')
ASSUMPTIONS = ['P1, P2', 'truth-carrying cells range over bool, int and blank; branch values are ints', 'AND/OR: at least one non-blank element (the all-blank case is not covered by the statement)']
TRUSTED = ['truth() oracle and spy function in props/c10.py']

LOG = []


def SPY(tag, value):
    LOG.append(int(val(tag)))
    return value


def NS():
    ns = xl.FUNCTIONS.copy()
    ns['SPY'] = SPY
    return ns


TV = Union[bool, int, None]


def truth(v):
    if v is None:
        return False
    if isinstance(v, bool):
        return v
    return v != 0


def valeq(r, exp):
    """Result equals the expected native value (ints for branch values, bool for FALSE default)."""
    if isinstance(exp, bool):
        return val(r) is exp or (isinstance(r, T.Boolean) and r.value == exp)
    return num_is(r, exp) or (isinstance(r, int) and not isinstance(r, bool) and r == exp)


def build(tier, seed):
    thorough = tier == 'thorough'
    TO = 300
    obs = []

    def add(name, fn, pre, wit, bounds, cost=5, show=None, fam=None):
        obs.append(Ob(f'c10.{name}', fn, pre=pre, witness=wit, timeout=TO, cost=cost, family='c10.' + (fam or name.split('[')[0]), bounds=bounds, show=show))

    # ---- IF: selection + laziness (spy) + poisoned other branch
    poison = {'div0': '1/0', 'unknown-function': 'NOSUCHFUNC(1)', 'circular': 'Y1', 'python-error': 'LEFT()'}
    M = mk({'A1': 1, 'B1': 2, 'C1': 3, 'Y1': '=Y1+1',
            'Z1': '=IF(A1,SPY(1,B1),SPY(2,C1))', 'Z2': '=IF(A1,SPY(1,B1))', 'Z3': '=IF(A1,B1,1/0)', 'Z4': '=IF(A1,1/0,C1)',
            'Z5': '=IF(A1,B1,NOSUCHFUNC(1))', 'Z6': '=IF(A1,NOSUCHFUNC(1),C1)', 'Z7': '=IF(A1,B1,Y1)', 'Z8': '=IF(A1,Y1,C1)',
            'Z9': '=IF(A1,B1,LEFT())', 'Z10': '=IF(A1,LEFT(),C1)', 'Z11': '=IF(A1,B1,#N/A)', 'Z12': '=IF(A1,#REF!,C1)',
            'Z13': '=IF(A1,B1,-#DIV/0!)', 'Z14': '=IF(A1,(#VALUE!),C1)'})

    def h_if(a: TV, b: int, c: int) -> bool:
        for k, v in (('A1', a), ('B1', b), ('C1', c)):
            setv(M, 'Sheet1!' + k, v)
        ev = Evaluator(M, NS())
        t = truth(a)
        del LOG[:]
        r = ev.evaluate('Sheet1!Z1')
        if not (valeq(r, b if t else c) and LOG == ([1] if t else [2])):
            return False
        del LOG[:]
        r = ev.evaluate('Sheet1!Z2')
        if not (valeq(r, b) and LOG == [1] if t else (valeq(r, False) and LOG == [])):
            return False
        return True
    add('IF[select+spy]', h_if, None, [(True, 5, 6), (False, 5, 6), (0, 5, 6), (7, 5, 6), (None, 5, 6)],
        'A1 over bool/int/blank, B1, C1 all ints: IF(A1,SPY(1,B1),SPY(2,C1)) and IF(A1,SPY(1,B1)); spy log = exactly the selected branch', 5,
        lambda a, b, c: f'A1={a!r} B1={b} C1={c}')

    def h_poison(a: TV, b: int, c: int) -> bool:
        for k, v in (('A1', a), ('B1', b), ('C1', c)):
            setv(M, 'Sheet1!' + k, v)
        ev = Evaluator(M, NS())
        t = truth(a)
        # poisoned branch is the one NOT selected -> no effect; selected -> error value (1/0) or an exception (unknown function, cycle, python error)
        for good_if_true, z_else_poison, z_then_poison in ((True, 'Z3', 'Z4'), (True, 'Z5', 'Z6'), (True, 'Z7', 'Z8'), (True, 'Z9', 'Z10'), (True, 'Z11', 'Z12'), (True, 'Z13', 'Z14')):
            # else-branch poisoned
            if t:
                if not valeq(ev.evaluate('Sheet1!' + z_else_poison), b):
                    return False
            else:
                try:
                    r = ev.evaluate('Sheet1!' + z_else_poison)
                    if not is_err(r):
                        return False
                except Exception:
                    pass
            # then-branch poisoned
            if not t:
                if not valeq(ev.evaluate('Sheet1!' + z_then_poison), c):
                    return False
            else:
                try:
                    r = ev.evaluate('Sheet1!' + z_then_poison)
                    if not is_err(r):
                        return False
                except Exception:
                    pass
        return True
    add('IF[poisoned other branch]', h_poison, None, [(True, 5, 6), (False, 5, 6), (None, 5, 6), (3, 1, 2)],
        'other branch is 1/0, an unknown function, a circular reference, a Python-level error or an error constant (#N/A, #REF!, -#DIV/0!, (#VALUE!)): no effect on the result; A1 over bool/int/blank', 12,
        lambda a, b, c: f'A1={a!r} B1={b} C1={c}')

    # fractional numbers: TRUE exactly when non-zero (0.5 is TRUE, not truncated to 0)
    MF = mk({'A1': 1, 'B1': 2, 'C1': 3, 'Z1': '=IF(A1,B1,C1)', 'Z2': '=IF(A1,B1)', 'Z3': '=NOT(A1)', 'Z4': '=AND(A1,TRUE)', 'Z5': '=OR(A1,FALSE)', 'Z6': '=IF(A1-0.75,B1,C1)', 'Z7': '=IF(A1/4,B1,C1)'})

    def h_frac(a: float, b: int, c: int, k: int) -> bool:
        # k/4 for k in -8..8 are exactly representable; a is any real in (-2, 2)
        for kk, v in (('B1', b), ('C1', c)):
            setv(MF, 'Sheet1!' + kk, v)
        k = concretize(k, -8, 8)
        for cond in (a, k / 4):
            setv(MF, 'Sheet1!A1', cond)
            ev = Evaluator(MF)
            t = cond != 0
            if not (valeq(ev.evaluate('Sheet1!Z1'), b if t else c) and (valeq(ev.evaluate('Sheet1!Z2'), b) if t else valeq(ev.evaluate('Sheet1!Z2'), False))
                    and bool_is(ev.evaluate('Sheet1!Z3'), not t) and bool_is(ev.evaluate('Sheet1!Z4'), t) and bool_is(ev.evaluate('Sheet1!Z5'), t)):
                return False
        setv(MF, 'Sheet1!A1', k / 4)
        ev = Evaluator(MF)
        return valeq(ev.evaluate('Sheet1!Z6'), b if k != 3 else c) and valeq(ev.evaluate('Sheet1!Z7'), b if k != 0 else c)
    add('IF[fractional condition]', h_frac, lambda a, b, c, k: -2 < a < 2 and -8 <= k <= 8, [(0.5, 5, 6, 1), (0.0, 5, 6, 0), (-0.25, 5, 6, 3)],
        'condition a real number in (-2, 2) (floats as reals) and k/4 for k in -8..8, also computed (A1-0.75, A1/4): TRUE exactly when non-zero; IF, NOT, AND, OR agree', 10,
        lambda a, b, c, k: f'A1={a!r} / {k / 4}, B1={b}, C1={c}')

    # nested IF depth 2 with spies on all four leaves
    MN = mk({'A1': 1, 'B1': 1, 'C1': 1, 'Z1': '=IF(A1,IF(B1,SPY(1,10),SPY(2,20)),IF(C1,SPY(3,30),SPY(4,40)))',
             'Z2': '=IF(AND(A1,B1),SPY(1,10),IF(OR(B1,C1),SPY(2,20),SPY(3,30)))', 'Z3': '=IF(NOT(A1),SPY(1,10),SPY(2,20))+IF(B1,SPY(3,1),SPY(4,2))'})

    def h_nested(a: TV, b: TV, c: TV) -> bool:
        for k, v in (('A1', a), ('B1', b), ('C1', c)):
            setv(MN, 'Sheet1!' + k, v)
        ev = Evaluator(MN, NS())
        ta, tb, tc = truth(a), truth(b), truth(c)
        del LOG[:]
        r = ev.evaluate('Sheet1!Z1')
        leaf = (1 if tb else 2) if ta else (3 if tc else 4)
        if not (valeq(r, leaf * 10) and LOG == [leaf]):
            return False
        if a is None and b is None:
            return True     # AND over blanks only: outside the statement
        and_ab = all(truth(v) for v in (a, b) if v is not None)
        if (not and_ab) and b is None and c is None:
            return True     # OR over blanks only
        or_bc = any(truth(v) for v in (b, c) if v is not None)
        del LOG[:]
        r = ev.evaluate('Sheet1!Z2')
        leaf = 1 if and_ab else (2 if or_bc else 3)
        if not (valeq(r, leaf * 10) and LOG == [leaf]):
            return False
        del LOG[:]
        r = ev.evaluate('Sheet1!Z3')
        l1, l2 = (2 if ta else 1), (3 if tb else 4)
        return valeq(r, l1 * 10 + (1 if tb else 2)) and LOG == [l1, l2]
    add('IF[nested depth 2]', h_nested, None, [(True, False, True), (0, 1, None), (None, 5, 0)],
        'A1, B1, C1 over bool/int/blank: nested IF / IF over AND, OR, NOT; spy log = exactly the selected leaves in order', 20,
        lambda a, b, c: f'A1={a!r} B1={b!r} C1={c!r}')

    # ---- AND / OR truth tables over scalars (1..4 arguments) and a range
    MA = mk({'A1': 1, 'A2': 1, 'A3': 1, 'A4': 1, 'B1': 1,
             'Z1': '=AND(A1)', 'Z2': '=AND(A1,A2)', 'Z3': '=AND(A1,A2,A3)', 'Z4': '=AND(A1,A2,A3,A4)',
             'Y1': '=OR(A1)', 'Y2': '=OR(A1,A2)', 'Y3': '=OR(A1,A2,A3)', 'Y4': '=OR(A1,A2,A3,A4)',
             'X1': '=AND(B1,A1:A3)', 'X2': '=OR(B1,A1:A3)', 'X3': '=AND(A1:A4)', 'X4': '=OR(A1:A2,A3:A4)', 'W1': '=NOT(A1)', 'W2': '=NOT(NOT(A1))'})

    def mk_andor(k):
        def body(vs):
            for i, v in enumerate(vs):
                setv(MA, f'Sheet1!A{i + 1}', v)
            used = [v for v in vs if v is not None]
            if not used:
                return True
            ev = Evaluator(MA)
            return bool_is(ev.evaluate(f'Sheet1!Z{k}'), all(truth(v) for v in used)) and bool_is(ev.evaluate(f'Sheet1!Y{k}'), any(truth(v) for v in used))
        if k == 1:
            def h(a: TV) -> bool: return body((a,))
        elif k == 2:
            def h(a: TV, b: TV) -> bool: return body((a, b))
        elif k == 3:
            def h(a: TV, b: TV, c: TV) -> bool: return body((a, b, c))
        else:
            def h(a: TV, b: TV, c: TV, d: TV) -> bool: return body((a, b, c, d))
        return h
    for k in (1, 2, 3, 4):
        w = [(True, 0, None, 5)[:k], (None, None, 1, False)[:k], (2, None, None, None)[:k]]
        obs.append(Ob(f'c10.AND-OR[{k} scalars]', mk_andor(k), witness=w, timeout=900, cost=3 ** k, family='c10.AND-OR',
                      bounds=f'{k} scalar argument(s), each over bool/int/blank (types forked, ints unbounded): conjunction / disjunction of the non-blank ones, numbers TRUE iff non-zero'))

    def h_andor_range1(s: TV, a: TV, b: TV, c: TV) -> bool:
        for i, v in enumerate((a, b, c)):
            setv(MA, f'Sheet1!A{i + 1}', v)
        setv(MA, 'Sheet1!B1', s)
        ev = Evaluator(MA)
        u1 = [v for v in (s, a, b, c) if v is not None]
        if not u1:
            return True
        return bool_is(ev.evaluate('Sheet1!X1'), all(truth(v) for v in u1)) and bool_is(ev.evaluate('Sheet1!X2'), any(truth(v) for v in u1))
    obs.append(Ob('c10.AND-OR[scalar+range]', h_andor_range1, witness=[(True, 1, None, 0), (None, None, None, True)], timeout=900, cost=100, family='c10.AND-OR',
                  bounds='AND(B1,A1:A3), OR(B1,A1:A3): scalar + range of 3 cells; every element over bool/int/blank (types forked, ints unbounded)',
                  show=lambda s, a, b, c: f'B1={s!r} A1:A3={(a, b, c)!r}'))

    def h_andor_range2(a: TV, b: TV, c: TV, d: TV) -> bool:
        for i, v in enumerate((a, b, c, d)):
            setv(MA, f'Sheet1!A{i + 1}', v)
        ev = Evaluator(MA)
        u2 = [v for v in (a, b, c, d) if v is not None]
        if not u2:
            return True
        return bool_is(ev.evaluate('Sheet1!X3'), all(truth(v) for v in u2)) and bool_is(ev.evaluate('Sheet1!X4'), any(truth(v) for v in u2))
    obs.append(Ob('c10.AND-OR[ranges]', h_andor_range2, witness=[(1, None, 0, 2), (None, None, None, True)], timeout=900, cost=100, family='c10.AND-OR',
                  bounds='AND(A1:A4), OR(A1:A2,A3:A4): a range of 4 cells, two ranges of 2 cells; every element over bool/int/blank',
                  show=lambda a, b, c, d: f'A1:A4={(a, b, c, d)!r}'))

    def h_not(a: TV) -> bool:
        setv(MA, 'Sheet1!A1', a)
        ev = Evaluator(MA)
        return bool_is(ev.evaluate('Sheet1!W1'), not truth(a)) and bool_is(ev.evaluate('Sheet1!W2'), truth(a))
    add('NOT', h_not, None, [(True,), (0,), (None,), (-3,)], 'A1 over bool/int/blank: NOT(A1), NOT(NOT(A1))', 3)

    # ---- errors among the evaluated arguments
    ME = mk({'A1': 1, 'A2': 1, 'E1': '=1/0', 'Z1': '=AND(A1,E1,A2)', 'Z2': '=OR(A1,E1,A2)', 'Z3': '=AND(E1,A1)', 'Z4': '=OR(E1,A1)', 'Z5': '=IF(E1,1,2)', 'Z6': '=NOT(E1)',
             'Z7': '=AND(A1,A2:E1)', 'A3': 1, 'Z8': '=IF(A1,E1,5)', 'Z9': '=AND(A1,#N/A)', 'Z10': '=OR(A1,#N/A)'})

    def h_err(a: TV, b: TV) -> bool:
        setv(ME, 'Sheet1!A1', a)
        setv(ME, 'Sheet1!A2', b)
        ev = Evaluator(ME)
        ta = truth(a)
        r1, r2 = ev.evaluate('Sheet1!Z1'), ev.evaluate('Sheet1!Z2')
        # the error sits behind A1: it is the result unless A1 already decided (then either the decided value or the error)
        ok1 = is_err(r1, XE.DivZeroExcelError) if (ta or a is None) else (bool_is(r1, False) or is_err(r1, XE.DivZeroExcelError))
        ok2 = is_err(r2, XE.DivZeroExcelError) if (not ta) else (bool_is(r2, True) or is_err(r2, XE.DivZeroExcelError))
        r9, r10 = ev.evaluate('Sheet1!Z9'), ev.evaluate('Sheet1!Z10')
        ok9 = is_err(r9, XE.NaExcelError) if (ta or a is None) else (bool_is(r9, False) or is_err(r9, XE.NaExcelError))
        ok10 = is_err(r10, XE.NaExcelError) if (not ta) else (bool_is(r10, True) or is_err(r10, XE.NaExcelError))
        r8 = ev.evaluate('Sheet1!Z8')
        ok8 = is_err(r8, XE.DivZeroExcelError) if ta else valeq(r8, 5)
        return (ok1 and ok2 and ok8 and ok9 and ok10 and is_err(ev.evaluate('Sheet1!Z3'), XE.DivZeroExcelError) and is_err(ev.evaluate('Sheet1!Z4'), XE.DivZeroExcelError)
                and is_err(ev.evaluate('Sheet1!Z5'), XE.DivZeroExcelError) and is_err(ev.evaluate('Sheet1!Z6'), XE.DivZeroExcelError))
    add('errors', h_err, None, [(True, 1), (False, 1), (None, 0), (0, None)],
        'an error (#DIV/0! from a cell, #N/A literal) among the arguments of AND/OR at first/middle position, as IF condition, as NOT argument, in the selected IF branch; A1, A2 over bool/int/blank', 15,
        lambda a, b: f'A1={a!r} A2={b!r}')
    return obs
