"""C05 — evaluation is deterministic, idempotent and order-independent."""
import gc
import weakref

from vf.ob import Ob
from props.common import *  # noqa
from props.models import MODELS, reset
from xlcalculator import evaluator as EV

EXPLANATION = ('For each pre-compiled model every schedule of evaluate() calls of the tier\'s length over its formula cells (with repetitions), run by one '
               'evaluator or by two evaluators over the same model alternating, is executed with symbolic input values; the first cell is fixed per '
               'obligation, the others are symbolic choices (forked). z3 decides on every path that each value equals the independent reference '
               'function of the inputs (hence does not depend on order, repetition or evaluator instance), that constants / formula texts / defined '
               'names / the key set of cells are unchanged, and - structural proxy of the memory clause - that no evaluation context object '
               'survives the schedule (after a cyclic garbage collection where one is needed) and no container reachable from the evaluator grew when the schedule is repeated.')
ASSUMPTIONS = ['P1, P2', 'memory clause: only the structural proxy (live evaluation contexts counted through weak references; sizes of the evaluator\'s '
               'containers) is decided; RSS / tracemalloc growth is a resource measurement outside this technique']
TRUSTED = ['Python reference functions per model in props/models.py', 'weak-reference spy on EvaluatorContext.__init__ (harness side)']

LIVE = weakref.WeakSet()
_orig_init = EV.EvaluatorContext.__init__


def _spy_init(self, *a, **kw):
    _orig_init(self, *a, **kw)
    LIVE.add(self)


EV.EvaluatorContext.__init__ = _spy_init


def snapshot(model, spec):
    return (tuple(sorted(model.cells.keys())),
            tuple((a, model.cells[a].formula.formula) for a in sorted(spec['formulas'])),
            tuple(sorted((k, getattr(v, 'address', None) if isinstance(getattr(v, 'address', None), str) else k) for k, v in model.defined_names.items())),
            tuple(sorted(model.ranges.keys())), tuple(sorted(model.formulae.keys())))


def container_sizes(ev):
    out = []
    for k, v in sorted(vars(ev).items()):
        if isinstance(v, (dict, list, set)):
            out.append((k, len(v)))
    for attr in ('cache_info',):
        f = getattr(EV.EvaluatorContext.eval_cell, attr, None)
        if f is not None:
            out.append(('eval_cell.cache', f().currsize))
    return out


def schedule_obs(mname, length, timeout):
    spec = MODELS[mname]
    M = spec['make']()
    inputs = spec['inputs']
    fcells = list(spec['formulas'])
    nf = len(fcells)
    obs = []

    def run(first, rest, vals, two):
        reset(M, spec)
        for a, v in zip(inputs, vals):
            M.cells[a].value = v
        cur = dict(zip(inputs, vals))
        snap0 = snapshot(M, spec)
        consts0 = [M.cells[a].value for a in inputs]
        e1 = Evaluator(M)
        e2 = Evaluator(M) if two else e1
        seq = [first] + [concretize(r, 0, nf - 1) for r in rest]
        for rep in range(2):
            for i, ci in enumerate(seq):
                ev = e1 if i % 2 == 0 else e2
                addr = fcells[ci]
                r = ev.evaluate(addr)
                if not num_is(r, spec['formulas'][addr](cur)):
                    return False
            if rep == 0:
                sizes1 = container_sizes(e1) + container_sizes(e2)
        sizes2 = container_sizes(e1) + container_sizes(e2)
        if sizes1 != sizes2:
            return False                      # something accumulates with repetitions
        if len(LIVE) != 0:
            gc.collect()                      # an Excel error raised and absorbed leaves a traceback <-> frame cycle: garbage, not growth
        if len(LIVE) != 0:
            return False                      # evaluation contexts outlive their evaluation
        if snapshot(M, spec) != snap0:
            return False
        for a, v0 in zip(inputs, consts0):
            if M.cells[a].value is not v0 and M.cells[a].value != v0:
                return False
        return True

    for first in range(nf):
        def mk_h(first):
            n_in = len(inputs)
            if length == 3:
                if n_in == 1:
                    def h(c2: int, c3: int, two: bool, v0: int) -> bool:
                        return run(first, (c2, c3), (v0,), two)
                elif n_in == 2:
                    def h(c2: int, c3: int, two: bool, v0: int, v1: int) -> bool:
                        return run(first, (c2, c3), (v0, v1), two)
                elif n_in == 3:
                    def h(c2: int, c3: int, two: bool, v0: int, v1: int, v2: int) -> bool:
                        return run(first, (c2, c3), (v0, v1, v2), two)
                else:
                    def h(c2: int, c3: int, two: bool, v0: int, v1: int, v2: int, v3: int) -> bool:
                        return run(first, (c2, c3), (v0, v1, v2, v3), two)
                return h, 2
            if n_in == 1:
                def h(c2: int, c3: int, c4: int, two: bool, v0: int) -> bool:
                    return run(first, (c2, c3, c4), (v0,), two)
            elif n_in == 2:
                def h(c2: int, c3: int, c4: int, two: bool, v0: int, v1: int) -> bool:
                    return run(first, (c2, c3, c4), (v0, v1), two)
            elif n_in == 3:
                def h(c2: int, c3: int, c4: int, two: bool, v0: int, v1: int, v2: int) -> bool:
                    return run(first, (c2, c3, c4), (v0, v1, v2), two)
            else:
                def h(c2: int, c3: int, c4: int, two: bool, v0: int, v1: int, v2: int, v3: int) -> bool:
                    return run(first, (c2, c3, c4), (v0, v1, v2, v3), two)
            return h, 3
        h, nrest = mk_h(first)

        def mk_pre(nrest):
            def pre(*a):
                for r in a[:nrest]:
                    if not (0 <= r < nf):
                        return False
                return True
            return pre
        wit = [tuple([nf - 1] * nrest) + (False,) + tuple(range(2, 2 + len(inputs))), tuple([0] * nrest) + (True,) + tuple(range(-1, -1 + len(inputs)))]
        obs.append(Ob(f'c05.schedule[{mname},len {length},first {fcells[first]}]', h, pre=mk_pre(nrest), witness=wit, timeout=timeout, cost=(nf ** nrest) / 4,
                      family=f'c05.schedule.{mname}',
                      bounds=f'model {mname}: all evaluation schedules of length {length} over its {nf} formula cells with repetitions (first fixed, others forked: '
                             f'{nf ** nrest} schedules) x one evaluator / two alternating evaluators; every schedule run twice; inputs: all ints',
                      show=lambda *a, first=first, nrest=nrest: 'evaluate ' + ', '.join(fcells[i] for i in [first] + list(a[:nrest]))
                      + (' (two evaluators)' if a[nrest] else ' (one evaluator)') + f' with inputs {a[nrest + 1:]}'))
    return obs


def build(tier, seed):
    thorough = tier == 'thorough'
    obs = []
    for mname in MODELS:
        if MODELS[mname].get('typed') or MODELS[mname].get('absent'):
            continue
        obs += schedule_obs(mname, 4 if thorough else 3, 900 if thorough else 300)
    return obs
