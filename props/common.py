"""Helpers shared by the property modules (harness side only; nothing here is in /repo)."""
import logging
logging.disable(logging.CRITICAL)      # log records read the clock, which CrossHair makes symbolic: every logging call would fork paths
import datetime
from typing import Optional, Union

import xlcalculator  # noqa: F401
from xlcalculator import Evaluator, ModelCompiler
from xlcalculator.xlfunctions import engineering  # noqa: F401  (not imported by the package itself)
from xlcalculator.xlfunctions import func_xltypes as T
from xlcalculator.xlfunctions import xl, xlerrors as XE

F = xl.FUNCTIONS
ERR_CLASSES = [XE.NullExcelError, XE.DivZeroExcelError, XE.ValueExcelError, XE.RefExcelError,
               XE.NameExcelError, XE.NumExcelError, XE.NaExcelError]
ERR_CODES = [c.value for c in ERR_CLASSES]


def mk(cells):
    """Compile a model from a dict {address: value-or-formula} with the real ModelCompiler."""
    return ModelCompiler().read_and_parse_dict(dict(cells))


def mk_sheets(d, default='Sheet1'):
    return ModelCompiler().read_and_parse_dict(dict(d), default_sheet=default)


def setv(model, addr, v):
    """Write an input value straight into the cell (what Model.set_cell_value does)."""
    model.cells[addr].value = v


def val(x):
    return x.value if isinstance(x, T.ExcelType) else x


def is_err(x, cls=None):
    return isinstance(x, XE.ExcelError) and (cls is None or isinstance(x, cls))


def same(r1, r2):
    """Same Excel value: same kind and same payload (errors: same code)."""
    e1, e2 = isinstance(r1, XE.ExcelError), isinstance(r2, XE.ExcelError)
    if e1 or e2:
        return e1 and e2 and str(r1.value) == str(r2.value)
    x1, x2 = isinstance(r1, T.ExcelType), isinstance(r2, T.ExcelType)
    if x1 != x2:
        return False
    if x1:
        if type(r1) is not type(r2):
            # Number(int) vs Number(float) are both Number; anything else differs
            return False
        return bool(r1.value == r2.value)
    return type(r1) is type(r2) and bool(r1 == r2)


def num_is(r, v):
    return isinstance(r, T.Number) and bool(r.value == v)


def bool_is(r, v):
    return isinstance(r, T.Boolean) and bool(r.value == v)


def text_is(r, v):
    return isinstance(r, T.Text) and bool(r.value == v)


def err_by_index(e):
    # if-chain: never index a list of classes with a symbolic int
    if e == 0:
        return XE.NullExcelError()
    if e == 1:
        return XE.DivZeroExcelError()
    if e == 2:
        return XE.ValueExcelError()
    if e == 3:
        return XE.RefExcelError()
    if e == 4:
        return XE.NameExcelError()
    if e == 5:
        return XE.NumExcelError()
    return XE.NaExcelError()


def evaluate(model, addr):
    return Evaluator(model).evaluate(addr)


def cast_native(v):
    """What Evaluator.evaluate does with a constant cell value."""
    return T.ExcelType.cast_from_native(v)


def concretize(x, lo, hi):
    """Fork on every value of a small symbolic integer (explored by path forking)."""
    for k in range(lo, hi + 1):
        if x == k:
            return k
    raise AssertionError('value outside the stated range')


def make_fn(body, params, name='h'):
    """A harness function with an explicit signature: body(*values) -> bool; params = [(name, type), ...]."""
    import inspect

    def h(*args):
        return body(*args)
    h.__name__ = name
    h.__signature__ = inspect.Signature([inspect.Parameter(n, inspect.Parameter.POSITIONAL_OR_KEYWORD, annotation=t) for n, t in params], return_annotation=bool)
    h.__annotations__ = {n: t for n, t in params}
    h.__annotations__['return'] = bool
    return h
