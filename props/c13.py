"""C13 — an extracted sub-model computes the same values as the full model."""
import copy

from vf.ob import Ob
from props.common import *  # noqa
from props.models import MODELS, reset, _named
from xlcalculator import ModelCompiler

EXPLANATION = ('ModelCompiler.extract runs (inside the traced code) on pre-compiled models with symbolic input values and a symbolic, non-empty focus '
               'subset of cells and defined names (one Boolean per candidate, forked); every focused item is evaluated in the extracted and in the '
               'original model, before and after up to two symbolic input changes applied to both; z3 decides equality with each other and with '
               'the independent reference function; the extracted model must contain the transitive closure of the focus and the original must be unchanged.')
ASSUMPTIONS = ['P1, P2', 'input values are ints', 'models of at most 8 cells; defined names bound to cells (names bound to ranges cannot be evaluated by the Evaluator at all)']
TRUSTED = ['Python reference functions and dependency closure table in props/c13.py / props/models.py']

EXTRA = {}
EXTRA['deep'] = dict(
    make=lambda: _named({'Sheet1!A1': 1, 'Sheet1!A2': 2, 'Sheet1!A3': 3, 'Sheet1!B1': '=A1+A2', 'Sheet1!C1': '=B1*2', 'Sheet1!D1': '=C1+SUM(A2:A3)',
                         'Sheet2!A1': '=Sheet1!D1-top', 'Sheet2!B1': 7},
                        {'top': 'Sheet1!C1', 'out': 'Sheet2!A1', 'k': 'Sheet2!B1'}),
    inputs=['Sheet1!A1', 'Sheet1!A2', 'Sheet1!A3'],
    formulas={'Sheet1!B1': lambda v: v['Sheet1!A1'] + v['Sheet1!A2'],
              'Sheet1!C1': lambda v: (v['Sheet1!A1'] + v['Sheet1!A2']) * 2,
              'Sheet1!D1': lambda v: (v['Sheet1!A1'] + v['Sheet1!A2']) * 2 + v['Sheet1!A2'] + v['Sheet1!A3'],
              'Sheet2!A1': lambda v: v['Sheet1!A2'] + v['Sheet1!A3']},
    names={'top': 'Sheet1!C1', 'out': 'Sheet2!A1'},
    all_names={'top': 'Sheet1!C1', 'out': 'Sheet2!A1', 'k': 'Sheet2!B1'},
    closure={'Sheet1!B1': ['Sheet1!A1', 'Sheet1!A2'], 'Sheet1!C1': ['Sheet1!B1', 'Sheet1!A1', 'Sheet1!A2'],
             'Sheet1!D1': ['Sheet1!C1', 'Sheet1!B1', 'Sheet1!A1', 'Sheet1!A2', 'Sheet1!A3'],
             'Sheet2!A1': ['Sheet1!D1', 'Sheet1!C1', 'Sheet1!B1', 'Sheet1!A1', 'Sheet1!A2', 'Sheet1!A3']},
)
EXTRA['spellings'] = dict(
    make=lambda: _named({'Sheet1!A1': 1, 'Sheet1!A2': 2, 'Sheet1!A3': 3, 'Sheet1!B1': 4, 'Sheet1!C1': '=SUM(A1:A3)', 'Sheet1!D1': '=SUM($A$1:$A$3)*inp+C1', 'Sheet1!E1': '=SUM(A$1:A$3)-$A$1+inp'},
                        {'inp': 'Sheet1!B1'}),
    inputs=['Sheet1!A1', 'Sheet1!A2', 'Sheet1!A3', 'Sheet1!B1'],
    formulas={'Sheet1!C1': lambda v: v['Sheet1!A1'] + v['Sheet1!A2'] + v['Sheet1!A3'],
              'Sheet1!D1': lambda v: (v['Sheet1!A1'] + v['Sheet1!A2'] + v['Sheet1!A3']) * v['Sheet1!B1'] + (v['Sheet1!A1'] + v['Sheet1!A2'] + v['Sheet1!A3']),
              'Sheet1!E1': lambda v: v['Sheet1!A2'] + v['Sheet1!A3'] + v['Sheet1!B1']},
    names={},
    all_names={'inp': 'Sheet1!B1'},
    closure={'Sheet1!C1': ['Sheet1!A1', 'Sheet1!A2', 'Sheet1!A3'], 'Sheet1!D1': ['Sheet1!C1', 'Sheet1!A1', 'Sheet1!A2', 'Sheet1!A3', 'Sheet1!B1'],
             'Sheet1!E1': ['Sheet1!A1', 'Sheet1!A2', 'Sheet1!A3', 'Sheet1!B1']},
)
CLOSURES = {
    'chain': {'Sheet1!B1': ['Sheet1!A1'], 'Sheet1!C1': ['Sheet1!B1', 'Sheet1!A1', 'Sheet1!A2'], 'Sheet1!D1': ['Sheet1!C1', 'Sheet1!B1', 'Sheet1!A1', 'Sheet1!A2'],
              'Sheet1!E1': ['Sheet1!A1', 'Sheet1!A2']},
    'diamond': {'Sheet1!B1': ['Sheet1!A1'], 'Sheet1!C1': ['Sheet1!A1'], 'Sheet1!D1': ['Sheet1!B1', 'Sheet1!C1', 'Sheet1!A1'],
                'Sheet1!E1': ['Sheet1!D1', 'Sheet1!B1', 'Sheet1!C1', 'Sheet1!A1']},
    'range': {'Sheet1!Z1': ['Sheet1!A1', 'Sheet1!A2', 'Sheet1!A3', 'Sheet1!C1'], 'Sheet1!Z2': ['Sheet1!Z1', 'Sheet1!A1', 'Sheet1!A2', 'Sheet1!A3', 'Sheet1!C1'],
              'Sheet1!Z3': ['Sheet1!A1', 'Sheet1!A2', 'Sheet1!A3']},
    'names': {'Sheet1!B1': ['Sheet2!A1', 'Sheet1!A1'], 'Sheet2!B1': ['Sheet1!B1', 'Sheet2!A1', 'Sheet1!A1'], 'Sheet1!C1': ['Sheet2!B1', 'Sheet1!B1', 'Sheet2!A1', 'Sheet1!A1']},
}


def snapshot(m):
    return (tuple(sorted(m.cells.keys())), tuple(sorted(m.defined_names.keys())), tuple(sorted(m.ranges.keys())), tuple(sorted(m.formulae.keys())),
            tuple((a, c.formula.formula if c.formula is not None else None) for a, c in sorted(m.cells.items())))


def extract_obs(mname, spec, closure, timeout, nchanges, sparse=False):
    M = spec['make']()
    inputs = spec['inputs']
    fcells = list(spec['formulas'])
    names = dict(spec['names'])
    all_names = dict(spec.get('all_names', spec['names']))
    cands = fcells + [n for n in names if names[n] in spec['formulas']]   # focus candidates: formula cells and names bound to them
    nc = len(cands)

    def target(item):
        return names.get(item, item)

    def run(flags, vals, ch_idx, ch_vals):
        reset(M, spec)
        for a, v in zip(inputs, vals):
            M.cells[a].value = v
        cur = dict(zip(inputs, vals))
        focus = [cands[i] for i in range(nc) if flags[i]]
        snap0 = snapshot(M)
        X = ModelCompiler.extract(M, focus)
        if snapshot(M) != snap0:
            return False
        # transitive closure present
        for item in focus:
            t = target(item)
            if t not in X.cells:
                return False
            for dep in closure[t]:
                if dep not in X.cells:
                    return False
            if item in names and item not in X.defined_names:
                return False
        eo, ex = Evaluator(M), Evaluator(X)
        for step in range(nchanges + 1):
            for item in focus:
                t = target(item)
                exp = spec['formulas'][t](cur)
                ro = eo.evaluate(item)
                rx = ex.evaluate(item)
                if not (num_is(ro, exp) and num_is(rx, exp)):
                    return False
            if step < nchanges:
                a = inputs[concretize(ch_idx[step], 0, len(inputs) - 1)]
                # an input that has a defined name is changed through that name (when the name is in the extracted model)
                spelled = a
                for nm_, tgt in all_names.items():
                    if tgt == a and nm_ in X.defined_names:
                        spelled = nm_
                eo.set_cell_value(spelled, ch_vals[step])
                ex.set_cell_value(spelled, ch_vals[step])
                cur[a] = ch_vals[step]
        # the inputs of the original were changed only by the explicit set_cell_value calls
        for a in inputs:
            if not (val(M.cells[a].value) == cur[a]):
                return False
        return True

    n_in = len(inputs)
    obs = []

    # one obligation per focus candidate that is certainly in the focus; the other candidates are symbolic Booleans
    for lead in range(nc):
        def mk_h(lead):
            others = [i for i in range(nc) if i != lead]

            allowed = sorted(set([0, 2 ** len(others) - 1] + [1 << k for k in range(len(others))])) if sparse else list(range(2 ** len(others)))

            def h(f: int, v0: int, v1: int, v2: int, v3: int, i0: int, i1: int, w0: int, w1: int) -> bool:
                # f encodes the membership of the other candidates (bit k <-> others[k])
                fv = None
                for cand in allowed:
                    if f == cand:
                        fv = cand
                        break
                if fv is None:
                    return True          # outside this tier's subset list (excluded by pre as well)
                flags = [False] * nc
                flags[lead] = True
                for k, i in enumerate(others):
                    flags[i] = bool((fv >> k) & 1)
                return run(flags, (v0, v1, v2, v3)[:n_in], (i0, i1), (w0, w1))
            return h, len(others), allowed
        h, no, allowed = mk_h(lead)
        obs.append(Ob(f'c13.extract[{mname},focus includes {cands[lead]}]', h,
                      pre=lambda f, v0, v1, v2, v3, i0, i1, w0, w1, allowed=allowed: f in allowed and 0 <= i0 < n_in and 0 <= i1 < n_in,
                      witness=[(0, 1, 2, 3, 4, 0, 0, 9, 8), (2 ** no - 1, 5, 6, 7, 8, n_in - 1, 0, -1, 0)], timeout=timeout, cost=len(allowed) * n_in * n_in / 2,
                      family=f'c13.extract.{mname}',
                      bounds=f'model {mname}: focus = {cands[lead]} plus ' + ('the empty, the full and every one-element subset' if sparse else 'every subset') + f' of the other {no} candidates {[cands[i] for i in range(nc) if i != lead]} (forked); inputs and '
                             f'the {nchanges} subsequent input changes (which input: forked; value: all ints) applied to both models',
                      show=lambda f, v0, v1, v2, v3, i0, i1, w0, w1, lead=lead: f'focus={[cands[lead]] + [cands[i] for k, i in enumerate([j for j in range(nc) if j != lead]) if (f >> k) & 1]} '
                      f'inputs={(v0, v1, v2, v3)[:n_in]} then set {inputs[i0 % n_in]}={w0}, set {inputs[i1 % n_in]}={w1}'))
    return obs


def build(tier, seed):
    thorough = tier == 'thorough'
    obs = []
    specs = {k: v for k, v in MODELS.items() if not (v.get('typed') or v.get('absent') or 'C13' in v.get('skip', ()))}
    for mname, spec in specs.items():
        obs += extract_obs(mname, spec, CLOSURES[mname], 900 if thorough else 400, 2 if thorough else 1)
    obs += extract_obs('deep', EXTRA['deep'], EXTRA['deep']['closure'], 3000 if thorough else 600, 2 if thorough else 1, sparse=not thorough)
    obs += extract_obs('spellings', EXTRA['spellings'], EXTRA['spellings']['closure'], 1200 if thorough else 600, 2 if thorough else 1)
    return obs
