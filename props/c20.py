"""C20 — financial functions satisfy their defining equations (structure only; root claims not applicable)."""
import datetime

from vf.ob import Ob
from props.common import *  # noqa
from xlcalculator.xlfunctions import financial as FIN

EXPLANATION = ('NPV, XNPV and SLN are executed symbolically with the cash flows (cost, salvage, life) as symbolic reals, for every rate of a concrete grid and concrete '
               'strictly increasing date vectors; z3 decides |result - sum c_i f_i| <= 1e-9 (1 + sum |c_i|) with the discount factors f_i computed independently in the '
               'harness, linearity in the cash flows and the rate-0 reduction. PMT and PV are executed with numpy_financial replaced by an uninterpreted stub (P4): the '
               'arguments handed to the library are exactly (rate, nper, pv|pmt, fv, when) as the statement prescribes.')
ASSUMPTIONS = ['P1, P2, P6 (floats as exact reals; tolerance 1e-9 relative)', 'rates from a concrete grid (a symbolic rate under ** is float pow, which SMT-LIB does not have); dates concrete',
               'P4: npf.pmt / npf.pv replaced by a recording stub returning an arbitrary finite real',
               'not applicable: IRR / XIRR root claims (LAPACK eigenvalues, scipy Newton iteration on floats), the PMT/PV closed forms and their inversion (inside numpy_financial)']
TRUSTED = ['discount-factor oracle in props/c20.py']

RATES = [-0.5, 0.0, 0.05, 0.1, 1.0, 10.0]
CALLS = []
RES = [0.0]


class npf_stub:
    def __enter__(self):
        from vf import xh
        self.fs = xh.fmt_stub()
        self.fs.__enter__()
        self.old = FIN.npf

        class Stub:
            @staticmethod
            def pmt(rate, nper, pv, fv=0, when='end'):
                CALLS.append(('pmt', rate, nper, pv, fv, when))
                return RES[0]

            @staticmethod
            def pv(rate, nper, pmt, fv=0, when='end'):
                CALLS.append(('pv', rate, nper, pmt, fv, when))
                return RES[0]
            @staticmethod
            def irr(values):
                CALLS.append(('irr', tuple(values)))
                return RES[0]
        FIN.npf = Stub
        self.old_newton = FIN.newton

        def newton(func, x0, *a, **kw):
            # contract stub of scipy.optimize.newton: records the start, probes the function handed over, returns the "root"
            CALLS.append(('newton', x0, tuple(func(r) for r in PROBE_RATES), a, tuple(sorted(kw))))
            return RES[0]
        FIN.newton = newton
        self.on = True
        STUB[0] = True
        return self

    def __exit__(self, *a):
        FIN.npf = self.old
        FIN.newton = self.old_newton
        STUB[0] = False
        self.fs.__exit__(*a)


STUB = [False]
PROBE_RATES = (0.0, 0.1, 1.0)


def nval(r):
    if isinstance(r, T.Number):
        return r.value
    if isinstance(r, (int, float)) and not isinstance(r, bool):
        return r
    return None


def near(a, b, scale):
    return a is not None and abs(a - b) <= 1e-9 * (1 + scale)


def build(tier, seed):
    thorough = tier == 'thorough'
    obs = []
    NMAX = 6 if thorough else 5
    rates = RATES + ([0.01, 0.25, 3.0] if thorough else [])

    # ---------------- NPV: sum c_i / (1+r)^i, linear, plain sum at rate 0
    for r in rates:
        for n in range(1, NMAX + 1):
            f = [(1 + r) ** -(i + 1) for i in range(n)]

            def mk(r, n, f):
                def body(*cs):
                    got = nval(FIN.NPV(r, *cs))
                    ref = sum(c * fi for c, fi in zip(cs, f))
                    scale = sum(abs(c) for c in cs)
                    if not near(got, ref, scale):
                        return False
                    if r == 0.0 and not near(got, sum(cs), scale):
                        return False
                    # linearity: NPV(r, 2c + 1) = 2 NPV(r, c) + NPV(r, 1)
                    got2 = nval(FIN.NPV(r, *[2 * c + 1 for c in cs]))
                    ones = nval(FIN.NPV(r, *[1.0] * n))
                    return near(got2, 2 * got + ones, 2 * scale + n)
                return make_fn(body, [(f'c{i}', float) for i in range(n)], name=f'npv_{n}')
            obs.append(Ob(f'c20.NPV[rate {r}, n={n}]', mk(r, n, f), pre=lambda *cs: all(-1e6 <= c <= 1e6 for c in cs), witness=[tuple(float(100 * (i + 1)) for i in range(n)), tuple([-50.0] * n)],
                          timeout=120, cost=2 + n, family='c20.NPV',
                          bounds=f'rate {r}, {n} cash flows, each a real in -10^6..10^6: sum c_i/(1+r)^i within 1e-9 relative; linear in the cash flows' + ('; plain sum at rate 0' if r == 0 else ''),
                          show=lambda *cs, r=r: f'NPV({r}, {cs!r})'))

    # ---------------- XNPV: sum v_i / (1+r)^((d_i - d_1)/365)
    D0 = 43831
    date_vectors = [[0, 365], [0, 30, 365, 400], [0, 1, 2, 3, 1000], [0, 365, 730, 1095, 1460, 1825]]
    for r in rates:
        if r <= -0.9:
            continue
        for dv in date_vectors[:(4 if thorough else 3)]:
            n = len(dv)
            serials = [D0 + d for d in dv]
            f = [(1.0 + r) ** -((d - dv[0]) / 365) for d in dv]

            def mk(r, n, f, serials):
                dates = T.Array([[datetime.datetime(1899, 12, 30) + datetime.timedelta(days=s)] for s in serials])

                def body(*cs):
                    vals = T.Array([[c] for c in cs])
                    got = nval(FIN.XNPV(r, vals, dates))
                    ref = sum(c * fi for c, fi in zip(cs, f))
                    scale = sum(abs(c) for c in cs)
                    return near(got, ref, scale)
                return make_fn(body, [(f'c{i}', float) for i in range(n)], name=f'xnpv_{n}')
            obs.append(Ob(f'c20.XNPV[rate {r}, dates +{dv}]', mk(r, n, f, serials), pre=lambda *cs: all(-1e6 <= c <= 1e6 for c in cs), witness=[tuple(float(-100 + 60 * i) for i in range(n))],
                          timeout=200, cost=5 + n, family='c20.XNPV',
                          bounds=f'rate {r}, dates 2020-01-01 + {dv} days, cash flows reals in -10^6..10^6: sum v_i/(1+r)^((d_i-d_1)/365) within 1e-9 relative (hence linear in the flows)',
                          show=lambda *cs, r=r, dv=dv: f'XNPV({r}, {cs!r}, +{dv})'))

    def h_xnpv_len(a: float, b: float) -> bool:
        vals = T.Array([[a], [b]])
        dates = T.Array([[datetime.datetime(2020, 1, 1)], [datetime.datetime(2021, 1, 1)], [datetime.datetime(2022, 1, 1)]])
        return is_err(FIN.XNPV(0.1, vals, dates), XE.NumExcelError)
    obs.append(Ob('c20.XNPV[length mismatch]', h_xnpv_len, pre=lambda a, b: -1e6 <= a <= 1e6 and -1e6 <= b <= 1e6, witness=[(1.0, 2.0)], timeout=60, cost=3, family='c20.XNPV',
                  bounds='2 values vs 3 dates: #NUM!'))

    # ---------------- SLN
    def h_sln(cost: float, salvage: float, life: float) -> bool:
        r = FIN.SLN(cost, salvage, life)
        if life == 0:
            return is_err(r, XE.DivZeroExcelError)
        v = nval(r)
        return v is not None and abs(v * life - (cost - salvage)) <= 1e-9 * (1 + abs(cost) + abs(salvage))
    obs.append(Ob('c20.SLN', h_sln, pre=lambda c, s, l: -1e9 <= c <= 1e9 and -1e9 <= s <= 1e9 and -1e4 <= l <= 1e4, witness=[(30000.0, 7500.0, 10.0), (1.0, 2.0, 0.0)], timeout=60, cost=3, family='c20.SLN',
                  bounds='cost, salvage reals in +-10^9, life real in +-10^4: SLN * life = cost - salvage (also for negative life); #DIV/0! for life 0', show=lambda c, s, l: f'SLN({c!r}, {s!r}, {l!r})'))

    # ---------------- PMT / PV plumbing (library = uninterpreted)
    import numpy_financial as real_npf

    def close(a, b):
        return a is not None and abs(a - b) <= 1e-9 * (1 + abs(b))

    def mk_pmt(with_fv):
        def h_pmt(rate: float, nper: float, pv: float, fv: float, u: float) -> bool:
            RES[0] = u
            del CALLS[:]
            r = FIN.PMT(rate, nper, pv, fv) if with_fv else FIN.PMT(rate, nper, pv)
            if not STUB[0]:
                # native replay: the real library, called directly with the prescribed arguments
                return close(nval(r), float(real_npf.pmt(rate, nper, pv, fv if with_fv else 0, 'end')))
            return len(CALLS) == 1 and CALLS[0] == ('pmt', rate, nper, pv, fv if with_fv else 0, 'end') and nval(r) == u
        return h_pmt
    for with_fv in (False, True):
        obs.append(Ob(f'c20.PMT[plumbing, {"fv given" if with_fv else "fv omitted"}]', mk_pmt(with_fv),
                      pre=lambda rate, nper, pv, fv, u, with_fv=with_fv: -0.9 < rate <= 10 and 1 <= nper <= 600 and -1e6 <= pv <= 1e6 and -1e6 <= fv <= 1e6 and -1e6 <= u <= 1e6 and (fv != 0 or not with_fv),
                      witness=[(0.01, 10.0, 1000.0, 50.0, 5.0), (0.0, 10.0, 1000.0, 500.0, 1.0), (0.1, 5.0, 100.0, -50.0, 1.0)], timeout=120, cost=5, family='c20.plumbing', ctx=npf_stub,
                      stubs=['P4 numpy_financial.pmt / pv recording stub'],
                      bounds='rate in (-0.9, 10] incl. 0, nper 1..600, pv, fv reals: PMT hands (rate, nper, pv, fv or 0, payments at period end) to the annuity routine and returns its result'
                             + ('; fv != 0' if with_fv else ''),
                      show=lambda *a, with_fv=with_fv: f'PMT{a[:4] if with_fv else a[:3]!r}'))

    def h_pv(rate: float, nper: float, pmt: float, fv: float, typ: bool, u: float) -> bool:
        RES[0] = u
        del CALLS[:]
        r = FIN.PV(rate, nper, pmt, fv, 1 if typ else 0)
        if not STUB[0]:
            return close(nval(r), float(real_npf.pv(rate, nper, pmt, fv, 1 if typ else 0)))
        return len(CALLS) == 1 and CALLS[0] == ('pv', rate, nper, pmt, fv, 1 if typ else 0) and nval(r) == u
    obs.append(Ob('c20.PV[plumbing]', h_pv, pre=lambda rate, nper, pmt, fv, typ, u: -0.9 < rate <= 10 and 1 <= nper <= 600 and -1e6 <= pmt <= 1e6 and -1e6 <= fv <= 1e6 and -1e6 <= u <= 1e6,
                  witness=[(0.01, 10.0, -100.0, 0.0, False, 5.0), (0.1, 5.0, -100.0, 50.0, True, 1.0)], timeout=120, cost=5, family='c20.plumbing', ctx=npf_stub, stubs=['P4'],
                  bounds='PV(rate, nper, pmt, fv, type) hands (rate, nper, pmt, fv, when = type) to the annuity routine (either timing) and returns its result',
                  show=lambda *a: f'PV{a[:5]!r}'))
    # ---------------- IRR / XIRR: the root finders themselves are third-party float iterations (outside); decided here: what the
    # functions hand to them and that they hand the root back - on every call, whatever was solved before
    XD = [datetime.datetime(2020, 1, 1), datetime.datetime(2021, 1, 1), datetime.datetime(2022, 7, 1)]
    XSER = [43831.0, 44197.0, 44743.0]
    XFLOWS = [[-1000.0, 3000.0, 2500.0], [-1000.0, 500.0, 600.0], [-1000.0, 100.0, 1200.0], [-5000.0, 2000.0, 4000.0]]

    def ref_xnpv(r, flows, sers):
        return sum(v / ((1.0 + r) ** ((d - sers[0]) / 365)) for v, d in zip(flows, sers))

    XCOEF = [tuple((1.0 + pr) ** -((d - XSER[0]) / 365) for d in XSER) for pr in PROBE_RATES]

    def h_xirr(a0: float, a1: float, a2: float, second_first: bool, guess: float, u1: float, u2: float) -> bool:
        fixed = (-1000.0, 400.0, 700.0)
        order = ((fixed, u1), ((a0, a1, a2), u2)) if second_first else (((a0, a1, a2), u1), (fixed, u2))
        for flows, u in order:
            RES[0] = u
            del CALLS[:]
            if not STUB[0]:
                # native run: the real solver; the returned rate is a root of XNPV of the same flows
                v = FIN._xirr(list(flows), list(XSER), guess)
                if abs(ref_xnpv(v, flows, XSER)) > 1e-6 * sum(abs(f) for f in flows):
                    return False
                continue
            r = FIN._xirr(list(flows), list(XSER), guess)
            if len(CALLS) != 1 or CALLS[0][0] != 'newton':
                return False
            _, x0, probes, a, kw = CALLS[0]
            if not (x0 == guess and r == u and len(probes) == 3):
                return False
            for p_, pr in zip(probes, PROBE_RATES):
                if p_ != ref_xnpv(pr, flows, XSER):          # the defining sum, term by term (exact over the reals)
                    return False
        return True
    obs.append(Ob('c20.XIRR[solver call, two consecutive schedules]', h_xirr,
                  pre=lambda a0, a1, a2, sf, guess, u1, u2: -1e6 <= a0 <= 1e6 and -1e6 <= a1 <= 1e6 and -1e6 <= a2 <= 1e6 and -0.9 < guess <= 10 and -0.9 < u1 <= 10 and -0.9 < u2 <= 10,
                  witness=[(-1000.0, 3000.0, 2500.0, False, 0.1, 0.5, 0.2), (-1000.0, 500.0, 600.0, True, 0.1, 0.2, 0.3), (-1000.0, 9000.0, 9000.0, False, 0.1, 0.1, 0.1), (-1000.0, 9000.0, 9000.0, True, 0.1, 0.1, 0.1)],
                  timeout=300, cost=20, family='c20.plumbing', ctx=npf_stub,
                  stubs=['P4 scipy.optimize.newton contract stub (records the start value, probes the function at 3 rates, returns a symbolic root)'],
                  bounds='_xirr (the kernel behind XIRR, after its pandas zero-filter / date sort, which cannot be traced) called twice over the same 3 dates, once with symbolic real flows in -10^6..10^6 and once with the flows (-1000, 400, 700), in either order; guess and the '
                         'solver\'s roots in (-0.9, 10]: each call hands the solver the start value `guess` and the function r -> XNPV(r, flows, dates) (compared at 3 rates: linear in the flows) and returns '
                         'its root, whatever was solved before; native witnesses run the real solver and check XNPV(root) = 0 within 1e-6 relative',
                  show=lambda *a: f'_xirr({a[:3]!r}) {"after" if a[3] else "before"} _xirr((-1000, 400, 700)), guess={a[4]}'))

    def h_irr(a: float, b: float, c: float, u: float) -> bool:
        RES[0] = u
        del CALLS[:]
        r = FIN.IRR(T.Array([[a], [b], [c]]))
        if not STUB[0]:
            v = nval(r)
            return v is not None and abs(a + b / (1 + v) + c / (1 + v) ** 2) <= 1e-6 * (abs(a) + abs(b) + abs(c))
        return len(CALLS) == 1 and CALLS[0] == ('irr', (a, b, c)) and nval(r) == u
    obs.append(Ob('c20.IRR[plumbing]', h_irr, pre=lambda a, b, c, u: -1e6 <= a < 0 and 0 < b <= 1e6 and 0 < c <= 1e6 and b + c > -a and -0.9 < u <= 10,
                  witness=[(-1000.0, 600.0, 700.0, 0.2), (-100.0, 60.0, 60.0, 0.1)], timeout=120, cost=5, family='c20.plumbing', ctx=npf_stub, stubs=['P4 numpy_financial.irr recording stub'],
                  bounds='IRR over three cash flows (an outlay followed by returns that exceed it, symbolic reals): hands exactly the flows, in order, to the root finder and returns its root; native witnesses: NPV(root) = 0 within 1e-6 relative',
                  show=lambda a, b, c, u: f'IRR({a}, {b}, {c})'))
    return obs
