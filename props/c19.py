"""C19 — base-conversion functions are exact two's-complement conversions (KT: kernel translator)."""
import z3

from kt import kt as K
from kt import models as MD
from kt.ob import kt_ob
from props.common import *  # noqa
from xlcalculator.xlfunctions import engineering as E
from xlcalculator.xlfunctions.func_xltypes import UNUSED

EXPLANATION = ('The source of the twelve conversion functions and of convert_bases / handle_places / handle_number / conversion / pad_zeroes is '
               'interpreted symbolically (kernel translator) with the integer argument, the places argument and the characters of a digit string '
               'as z3 integers; each obligation is ONE query "exists an input in the bounds whose outcome differs from the two\'s-complement '
               'reference": unsat = holds for every integer / every digit string of that length at once. Solver models and boundary inputs are '
               'pushed through both the encoding and the real function on every run (translator validation).')
ASSUMPTIONS = ['Python ints are mathematical integers (nothing wraps)', 'digit strings: every character a code point in 32..126, lengths 0..11 enumerated',
               'library models (kt/models.py): int(str, base), str(int), len, set difference with the permitted digits, bin/oct/hex of a non-negative int as (value, number of digits), '
               '[2:], upper(), zfill()']
TRUSTED = ['kt/kt.py interpreter', 'kt/models.py digit-string models', 'reference semantics in props/c19.py']

BASE = {'BIN': (bin, 2), 'OCT': (oct, 8), 'HEX': (hex, 16)}
# the representable windows of the statement (10 digits, two's complement)
HALF = {'BIN': 2 ** 9, 'OCT': 2 ** 29, 'HEX': 2 ** 39}
DIGITS = '0123456789ABCDEF'


def window(a, b):
    return min(HALF.get(a, 10 ** 30), HALF.get(b, 10 ** 30))


def z_ndigits(v, b):
    e = z3.IntVal(41)
    for k in range(40, 0, -1):
        e = z3.If(v < b ** k, k, e)
    return e


def py_ndigits(v, b):
    n = 1
    while v >= b:
        v //= b
        n += 1
    return n


def py_digits(v, b, nd):
    s = ''
    for _ in range(nd):
        s = DIGITS[v % b] + s
        v //= b
    return s


# ----------------------------------------------------------------------------------------- reference (Python and z3)
def ref_encode_py(V, dest, places):
    """V: signed integer to render in base `dest` ('DEC' = return the int).  places: None (unused) or int."""
    if places is not None and not (1 <= places <= 10):
        return ('raise', 'NumExcelError')
    if dest == 'DEC':
        return ('int', V)
    b = BASE[dest][1]
    if V >= 0:
        nd0 = py_ndigits(V, b)
        if places is not None and places < nd0:
            return ('raise', 'NumExcelError')
        return ('str', py_digits(V, b, max(nd0, places or 0)))
    return ('str', py_digits(V + b ** 10, b, 10))


def norm_leaf(leaf, model):
    if leaf.kind == 'raise':
        return ('raise', leaf.value)
    r = leaf.value
    if isinstance(r, MD.MNumStr):
        v = model.eval(r.value, model_completion=True).as_long()
        nd = model.eval(r.nd, model_completion=True).as_long() if K.is_sym(r.nd) else r.nd
        s = py_digits(v, r.base, nd)
        if py_ndigits(v, r.base) > nd:
            s = '<' + str(v) + ' does not fit ' + str(nd) + ' digits>'
        return ('str', s if r.upper_ else s.lower())
    if K.is_sym(r):
        return ('int', model.eval(r, model_completion=True).as_long())
    if isinstance(r, int):
        return ('int', r)
    return ('other', repr(r))


def norm_native(r):
    if isinstance(r, XE.ExcelError):
        return ('raise', type(r).__name__)
    if isinstance(r, T.Text):
        return ('str', r.value)
    if isinstance(r, T.Number):
        return ('int', int(r.value)) if float(r.value).is_integer() else ('float', r.value)
    if isinstance(r, str):
        return ('str', r)
    if isinstance(r, int):
        return ('int', r)
    return ('other', repr(r))


def bad_encode(leaf, V, in_window, dest, places, extra_error=None):
    """z3 condition: this leaf's outcome differs from the reference for signed value V."""
    err = z3.Not(in_window)
    if extra_error is not None:
        err = z3.Or(err, extra_error)
    if places is not None:
        err = z3.Or(err, places < 1, places > 10)
    if dest != 'DEC':
        b = BASE[dest][1]
        nd0 = z_ndigits(V, b)
        if places is not None:
            err = z3.Or(err, z3.And(V >= 0, places < nd0))
    if leaf.kind == 'raise':
        if leaf.value != 'NumExcelError':
            return True
        return z3.Not(err)
    r = leaf.value
    if dest == 'DEC':
        if isinstance(r, MD.MNumStr) or K.is_model(r):
            return True
        return z3.Or(err, r != V)
    if not isinstance(r, MD.MNumStr):
        return True
    ref_val = z3.If(V >= 0, V, V + b ** 10)
    ref_nd = z3.If(V >= 0, (z3.If(places > nd0, places, nd0) if places is not None else nd0), 10)
    return z3.Or(err, r.value != ref_val, r.nd != ref_nd, r.base != b, z3.Not(z3.BoolVal(bool(r.upper_))), z3.BoolVal(bool(r.prefixed)))


# ----------------------------------------------------------------------------------------- obligations
def fn_of(name):
    return E.__dict__[name]


def from_dec(dest, with_places):
    name = f'DEC2{dest}'

    def spec():
        v = z3.Int('v')
        p = z3.Int('places')
        vars_ = {'v': v}
        assumptions = [v >= -2 ** 41, v <= 2 ** 41]
        args = [MD.MNumber(v)]
        if with_places:
            args.append(MD.MNumber(p))
            vars_['places'] = p
            assumptions += [p >= -2, p <= 12]
        W = HALF[dest]

        def encode():
            leaves, it = K.explore(fn_of(name), args, assumptions, MD.DIGIT_MODELS)
            return leaves, it, vars_

        def call(assign):
            a = [assign['v']] + ([assign['places']] if with_places else [])
            return fn_of(name)(*a)

        def replay(assign):
            got = norm_native(call(assign))
            V = assign['v']
            exp = ref_encode_py(V, dest, assign.get('places')) if -W <= V < W else ('raise', 'NumExcelError')
            return got == exp, f'{name}({assign}) = {got}, reference {exp}'
        samples = []
        for V in (0, 1, -1, 2, 5, W - 1, W, -W, -W - 1, W + 4, -W + 3, 255, -256):
            for P in ((None,) if not with_places else (1, 3, 10, 0, 11, 9)):
                samples.append({'v': V, **({'places': P} if with_places else {})})
        return dict(encode=encode, bad=lambda l: bad_encode(l, v, z3.And(v >= -W, v < W), dest, p if with_places else None),
                    replay=replay, norm=norm_leaf, native=lambda a: norm_native(call(a)), samples=samples, show=lambda a: f'{name}({a})',
                    models=['kt/models.py: int, str, len, bin/oct/hex, zfill, upper'])
    return kt_ob(f'c19.{name}[{"places" if with_places else "no places"}]', spec, family='c19.from-dec',
                 bounds=f'{name}: every integer v in -2^41..2^41' + (', every places in -2..12' if with_places else ', places omitted')
                        + f'; reference: 10-digit two\'s complement, window -{HALF[dest]}..{HALF[dest] - 1}, upper case, zero padding for v >= 0, #NUM! otherwise')


def text_value(codes, b, L):
    vals = [MD.digit_value(c) for c in codes]
    total = z3.IntVal(0)
    for d in vals:
        total = total * b + d
    valid = z3.And(*[z3.And(d >= 0, d < b) for d in vals]) if vals else z3.BoolVal(True)
    signed = z3.If(total >= (b ** 10) // 2, total - b ** 10, total) if L == 10 else total
    return valid, signed


def from_text(origin, dest, L, with_places):
    name = f'{origin}2{dest}'
    b = BASE[origin][1]

    def spec():
        codes = [z3.Int(f'c{i}') for i in range(L)]
        p = z3.Int('places')
        vars_ = {f'c{i}': c for i, c in enumerate(codes)}
        assumptions = [z3.And(c >= 32, c <= 126) for c in codes]
        args = [MD.MText(codes)]
        if with_places:
            args.append(MD.MNumber(p))
            vars_['places'] = p
            assumptions += [p >= -1, p <= 11]
        W = window(origin, dest)
        valid, V = text_value(codes, b, L)

        def encode():
            leaves, it = K.explore(fn_of(name), args, assumptions, MD.DIGIT_MODELS)
            return leaves, it, vars_

        def text_of(assign):
            return ''.join(chr(assign[f'c{i}']) for i in range(L))

        def call(assign):
            a = [text_of(assign)] + ([assign['places']] if with_places else [])
            return fn_of(name)(*a)

        def ref(assign):
            s = text_of(assign)
            P = assign.get('places')
            if P is not None and not (1 <= P <= 10):
                return ('raise', 'NumExcelError')
            if len(s) > 10 or any(ch not in '0123456789ABCDEFabcdef'[:(b if b <= 10 else 22)] for ch in s):
                return ('raise', 'NumExcelError')
            val = int(s, b) if s else 0
            if len(s) == 10 and val >= b ** 10 // 2:
                val -= b ** 10
            if not (-W <= val < W):
                return ('raise', 'NumExcelError')
            return ref_encode_py(val, dest, P)

        def replay(assign):
            got, exp = norm_native(call(assign)), ref(assign)
            return got == exp, f'{name}({text_of(assign)!r}' + (f', {assign["places"]}' if with_places else '') + f') = {got}, reference {exp}'
        samples = []
        base_digits = '01' if b == 2 else ('01234567' if b == 8 else '0123456789ABCDEFabcdef')
        pool = [base_digits[0] * L, base_digits[-1] * L, (base_digits[1] + base_digits[0] * (L - 1)) if L else '', ('1' * L)[:L], (base_digits[-1] + base_digits[0] * (L - 1)) if L else '',
                ('2' * L)[:L], ('9' * L)[:L], ('G' * L)[:L], ('1.' + '0' * L)[:L], ('-1' + '0' * L)[:L], (' 1' + '0' * L)[:L], ('f' * L)[:L], ('7' + 'F' * (L - 1)) if L else '']
        for sx in pool:
            if len(sx) != L:
                continue
            for P in ((None,) if not with_places else (10, 1, 4)):
                a = {f'c{i}': ord(ch) for i, ch in enumerate(sx)}
                if with_places:
                    a['places'] = P
                samples.append(a)
        extra_error = z3.Not(valid) if L <= 10 else z3.BoolVal(True)
        inwin = z3.And(V >= -W, V < W)
        return dict(encode=encode, bad=lambda l: bad_encode(l, V, inwin, dest, p if with_places else None, extra_error=extra_error),
                    replay=replay, norm=norm_leaf, native=lambda a: norm_native(call(a)), samples=samples, show=lambda a: f'{name}({text_of(a)!r}, {a.get("places")})',
                    models=['kt/models.py: int(str, base), str, len, set difference, bin/oct/hex, zfill, upper'])
    return kt_ob(f'c19.{name}[text len {L},{"places" if with_places else "no places"}]', spec, family='c19.from-text',
                 bounds=f'{name}: every digit string of length {L} over the code points 32..126 (valid digits of both cases, invalid characters, ".", "-", blanks)'
                        + (', every places in -1..11' if with_places else '') + '; reference: signed 10-digit value, window of the two bases, #NUM! on invalid input',
                 cost=3 + L)


def number_as_digits(origin, dest):
    """A Number given to BIN2..., OCT2..., HEX2... is read through its decimal rendering."""
    name = f'{origin}2{dest}'
    b = BASE[origin][1]

    def spec():
        v = z3.Int('v')
        vars_ = {'v': v}
        VMAX = 10 ** 5 if origin == 'OCT' else 10 ** 10 + 5 * 10 ** 9     # z3 answers unknown on the octal reading of 11 decimal digits
        assumptions = [v >= -20, v <= VMAX]
        W = window(origin, dest)

        def encode():
            leaves, it = K.explore(fn_of(name), [MD.MNumber(v)], assumptions, MD.DIGIT_MODELS)
            return leaves, it, vars_

        def ref(V):
            s = str(V)
            if len(s) > 10 or any(ch not in '0123456789'[:min(b, 10)] for ch in s):
                return ('raise', 'NumExcelError')
            val = int(s, b)
            if len(s) == 10 and val >= b ** 10 // 2:
                val -= b ** 10
            if not (-W <= val < W):
                return ('raise', 'NumExcelError')
            return ref_encode_py(val, dest, None)

        def replay(assign):
            got, exp = norm_native(fn_of(name)(assign['v'])), ref(assign['v'])
            return got == exp, f'{name}({assign["v"]}) = {got}, reference {exp}'

        def bad(l):
            # reference expressed on the decimal digits of v (length forked in the encoding; here by cases on L)
            cases = []
            for L in range(1, 13):
                lo, hi = (0 if L == 1 else 10 ** (L - 1)), 10 ** L
                digs = [(v / (10 ** (L - 1 - i))) % 10 for i in range(L)]
                total = z3.IntVal(0)
                for d in digs:
                    total = total * b + d
                valid = z3.And(*[d < b for d in digs])
                signed = z3.If(total >= (b ** 10) // 2, total - b ** 10, total) if L == 10 else total
                err = z3.Or(z3.Not(valid), z3.BoolVal(L > 10))
                inwin = z3.And(signed >= -W, signed < W)
                cases.append(z3.And(v >= lo, v < hi, bad_z(l, signed, inwin, err)))
            cases.append(z3.And(v < 0, (z3.BoolVal(True) if not (l.kind == 'raise' and l.value == 'NumExcelError') else z3.BoolVal(False))))
            return z3.Or(*cases)

        def bad_z(l, signed, inwin, err):
            b_ = bad_encode(l, signed, inwin, dest, None, extra_error=err)
            return z3.BoolVal(b_) if isinstance(b_, bool) else b_
        samples = [{'v': x} for x in (0, 1, 10, 11, 101, 777, 1111111111, 1000000000, 7777777777, 12345678901, -1, 2, 8, 9, 111, 1777777777, 9999999999) if x <= VMAX]
        return dict(encode=encode, bad=bad, replay=replay, norm=norm_leaf, native=lambda a: norm_native(fn_of(name)(a['v'])), samples=samples,
                    show=lambda a: f'{name}({a["v"]})', models=['kt/models.py: str(int) as decimal digits'])
    return kt_ob(f'c19.{name}[number argument]', spec, family='c19.from-number',
                 bounds=f'{name} with a whole Number v in -20..' + ('10^5' if origin == 'OCT' else '1.5*10^10') + f' (read through its decimal rendering): digits outside the base, more than 10 digits and negative numbers give #NUM!', cost=15)


def misc_obs():
    obs = []

    def lemma(bname):
        b = BASE[bname][1]

        def spec():
            v = z3.Int('v')

            def encode():
                return [K.Leaf(z3.And(v >= -HALF[bname], v < HALF[bname]), 'return', None)], K.Interp({}), {'v': v}

            def bad(l):
                enc = z3.If(v >= 0, v, v + b ** 10)
                dec = z3.If(enc >= (b ** 10) // 2, enc - b ** 10, enc)
                return z3.Or(dec != v, enc < 0, enc >= b ** 10)

            def replay(a):
                V = a['v']
                s = norm_native(fn_of(f'DEC2{bname}')(V))
                back = norm_native(fn_of(f'{bname}2DEC')(s[1])) if s[0] == 'str' else s
                return back == ('int', V), f'{bname}2DEC(DEC2{bname}({V})) = {back}'
            return dict(encode=encode, bad=bad, replay=replay, norm=lambda l, m: ('lemma', None), native=lambda a: ('lemma', None), samples=[], show=lambda a: f'v={a["v"]}')
        return kt_ob(f'c19.roundtrip-lemma[{bname}]', spec, family='c19.roundtrip',
                     bounds=f'for every v in the {bname} window: decoding the 10-digit two\'s-complement encoding of v gives v (arithmetic lemma over the reference, which the DEC2{bname} and '
                            f'{bname}2DEC obligations show the code to implement)', cost=1)
    for bname in BASE:
        obs.append(lemma(bname))

    # booleans -> #VALUE!, blank -> 0 (concrete objects through the interpreted source)
    def concrete(name, args, expect, label):
        def spec():
            def encode():
                leaves, it = K.explore(fn_of(name), args, [], MD.DIGIT_MODELS)
                return leaves, it, {}

            def bad(l):
                sv = z3.Solver()
                sv.add(l.pc)
                if sv.check() != z3.sat:
                    return False
                return norm_leaf(l, sv.model()) != expect

            def replay(a):
                nat = [x.value if isinstance(x, T.ExcelType) and not isinstance(x, (MD.MNumber, MD.MText, MD.MBlank)) else x for x in args]
                got = norm_native(fn_of(name)(*[T.BLANK if isinstance(x, MD.MBlank) else x for x in args]))
                return got == expect, f'{name}{label} = {got}, expected {expect}'
            return dict(encode=encode, bad=bad, replay=replay, norm=norm_leaf, native=lambda a: expect, samples=[], show=lambda a: f'{name}{label}')
        return kt_ob(f'c19.{name}[{label}]', spec, family='c19.argument-kinds', bounds=f'{name}{label}: {expect}', cost=1)
    for name in ('DEC2BIN', 'BIN2DEC', 'HEX2OCT', 'OCT2HEX', 'DEC2HEX'):
        obs.append(concrete(name, [T.Boolean(True)], ('raise', 'ValueExcelError'), '(TRUE)'))
    for name in ('DEC2BIN', 'HEX2OCT', 'DEC2OCT', 'BIN2HEX'):
        obs.append(concrete(name, [MD.MNumber(z3.IntVal(5)) if name.startswith('DEC') else MD.MText([z3.IntVal(49)]), T.Boolean(False)], ('raise', 'ValueExcelError'), '(x, FALSE as places)'))
    obs.append(concrete('DEC2BIN', [MD.MBlank()], ('str', '0'), '(blank)'))
    obs.append(concrete('BIN2DEC', [MD.MBlank()], ('int', 0), '(blank)'))
    obs.append(concrete('HEX2BIN', [MD.MBlank(), MD.MNumber(z3.IntVal(4))], ('str', '0000'), '(blank, 4)'))
    return obs


def _empty_model():
    s = z3.Solver()
    s.check()
    return s.model()


def build(tier, seed):
    thorough = tier == 'thorough'
    obs = []
    for d in BASE:
        obs.append(from_dec(d, False))
        obs.append(from_dec(d, True))
    lens = list(range(0, 12)) if thorough else [0, 1, 2, 3, 9, 10, 11]
    for o in BASE:
        for L in lens:
            obs.append(from_text(o, 'DEC', L, False))
        for d in BASE:
            if d == o:
                continue
            for L in (lens if thorough else [1, 3, 10, 11]):
                obs.append(from_text(o, d, L, True))
            obs.append(from_text(o, d, 10, False))
            obs.append(number_as_digits(o, d))
        obs.append(number_as_digits(o, 'DEC'))
    obs += misc_obs()
    return obs
