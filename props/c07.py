"""C07 — Excel errors are values that propagate; typed operands never crash."""
import datetime
import inspect
from typing import Optional, Union

from vf.ob import Ob, TOTAL
from props.common import *  # noqa
from xlcalculator.xlfunctions import operator as OPS, math as XM, text as XT, information as INF, statistics as ST

EXPLANATION = ('Operators (as OP_*/POWER/CONCAT calls and as formulas), every registered function (enumerated from the live registry at run time, every '
               'parameter position) and the aggregating functions over argument lists and ranges are executed with an Excel error object at a symbolic '
               'position/code and symbolic typed values elsewhere; z3 decides on every path that the result is that error (the leftmost one), that '
               'operators on every pair of scalar types return a value or #VALUE!/#DIV/0!/#NUM! and never raise, that errors are stored in cells and '
               'handed on, and the truth tables of the IS* inspectors.')
ASSUMPTIONS = ['P1, P2, P6', 'texts length <= 2; ints unbounded except where rendered', 'sample arguments per parameter are derived from its annotation (numbers: symbolic 1..3)']
TRUSTED = ['sample-argument table in props/c07.py']

BIN = [('+', OPS.OP_ADD), ('-', OPS.OP_SUB), ('*', OPS.OP_MUL), ('/', OPS.OP_DIV), ('^', XM.POWER), ('&', XT.CONCAT),
       ('=', OPS.OP_EQ), ('<>', OPS.OP_NE), ('<', OPS.OP_LT), ('>', OPS.OP_GT), ('<=', OPS.OP_LE), ('>=', OPS.OP_GE)]
SV = Union[int, str, bool, None]


def same_err(r, e):
    return isinstance(r, XE.ExcelError) and r.value == e.value


def operator_obs(timeout):
    obs = []
    # formulas: error literal / error stored in a cell, at left / right / both
    cells = {'A1': 1, 'E1': '=1/0', 'E2': '=NA()'}
    for i, (sym, f) in enumerate(BIN):
        cells[f'L{i + 1}'] = f'=E1{sym}A1'
        cells[f'R{i + 1}'] = f'=A1{sym}E1'
        cells[f'B{i + 1}'] = f'=E1{sym}E2'
        cells[f'C{i + 1}'] = f'=E2{sym}E1'
        cells[f'M{i + 1}'] = f'=#REF!{sym}A1'
        cells[f'N{i + 1}'] = f'=A1{sym}#NUM!'
    cells['U1'] = '=-E1'
    cells['U2'] = '=-#N/A'
    M = mk(cells)
    for i, (sym, f) in enumerate(BIN):
        def mk_h(i, f):
            def h(e: int, v: SV, right: bool) -> bool:
                err = err_by_index(e)
                x = cast_native(v)
                r = f(x, err) if right else f(err, x)
                if r is not err:
                    return False
                # formula form
                setv(M, 'Sheet1!A1', v)
                ev = Evaluator(M)
                return (is_err(ev.evaluate(f'Sheet1!L{i + 1}'), XE.DivZeroExcelError) and is_err(ev.evaluate(f'Sheet1!R{i + 1}'), XE.DivZeroExcelError)
                        and is_err(ev.evaluate(f'Sheet1!M{i + 1}'), XE.RefExcelError) and is_err(ev.evaluate(f'Sheet1!N{i + 1}'), XE.NumExcelError))

            def h2(e: int, e2: int) -> bool:
                err, err2 = err_by_index(e), err_by_index(e2)
                ev = Evaluator(M)
                return (f(err, err2) is err and is_err(ev.evaluate(f'Sheet1!B{i + 1}'), XE.DivZeroExcelError) and is_err(ev.evaluate(f'Sheet1!C{i + 1}'), XE.NaExcelError))
            return h, h2
        h, h2 = mk_h(i, f)
        obs.append(Ob(f'c07.operator-error[{sym}]', h,
                      pre=lambda e, v, right: 0 <= e <= 6 and (not isinstance(v, str) or len(v) <= 2),
                      witness=[(1, 5, False), (6, 'a', True), (3, None, False), (0, True, True)], timeout=timeout, cost=15, family='c07.operator-error',
                      bounds=f'operator {sym}: error code 0..6 (forked) at left / right; other operand over int/text(<=2)/bool/blank cast as the evaluator casts; '
                             'library call and formulas with the error in a cell and as a literal',
                      show=lambda e, v, right, sym=sym: f'{ERR_CODES[e % 7]} {sym} {v!r}' if not right else f'{v!r} {sym} {ERR_CODES[e % 7]}'))
        obs.append(Ob(f'c07.operator-error-both[{sym}]', h2, pre=lambda e, e2: 0 <= e <= 6 and 0 <= e2 <= 6, witness=[(1, 6), (6, 2)], timeout=timeout, cost=8,
                      family='c07.operator-error', bounds=f'operator {sym}: both operands errors (7 x 7 codes, forked): the leftmost is the result; library and formula forms',
                      show=lambda e, e2, sym=sym: f'{ERR_CODES[e % 7]} {sym} {ERR_CODES[e2 % 7]}'))

    def h_neg(e: int) -> bool:
        err = err_by_index(e)
        ev = Evaluator(M)
        return OPS.OP_NEG(err) is err and OPS.OP_PERCENT(err) is err and is_err(ev.evaluate('Sheet1!U1'), XE.DivZeroExcelError) and is_err(ev.evaluate('Sheet1!U2'), XE.NaExcelError)
    obs.append(Ob('c07.operator-error[u-]', h_neg, pre=lambda e: 0 <= e <= 6, witness=[(1,), (6,)], timeout=timeout, cost=3, family='c07.operator-error',
                  bounds='unary minus and percent on each error code'))
    return obs


DP = [False]


class dateutil_stub:
    """P4: dateutil.parser.parse (third-party text parsing) replaced while tracing by its documented contract: it either
    returns a datetime or raises ValueError; which of the two is a symbolic Boolean of the harness.  Replay uses the real parser."""

    def __enter__(self):
        import dateutil.parser
        from vf import xh
        self.fs = xh.fmt_stub()
        self.fs.__enter__()
        self.mod = dateutil.parser
        self.old = dateutil.parser.parse

        def parse(s, *a, **kw):
            if DP[0]:
                return datetime.datetime(2021, 3, 4)
            raise ValueError('stub: not a date')
        dateutil.parser.parse = parse
        return self

    def __exit__(self, *a):
        self.mod.parse = self.old
        self.fs.__exit__(*a)


AL07 = 'a1 -.e+_T:'
MAXLEN = [1]


def ascii_text(v):
    """Texts of the no-crash family: every printable ASCII character at length <= 1; at length 2 the alphabet AL07 (letter, digit,
    blank, sign, dot, exponent, underscore, colon): strings made of characters that may occur in a numeric literal have to be
    realised one by one by int()/float(), so their number must stay small."""
    if not isinstance(v, str):
        return True
    if len(v) > MAXLEN[0]:
        return False
    if len(v) == 2:
        for ch in v:
            o = ord(ch)
            if not (o == 97 or o == 49 or o == 32 or o == 45 or o == 46 or o == 101 or o == 43 or o == 95 or o == 84 or o == 58):
                return False
        return True
    for ch in v:
        o = ord(ch)
        if MAXLEN[0] == 1:
            # quick tier: the ten characters of AL07 only
            if not (o == 97 or o == 49 or o == 32 or o == 45 or o == 46 or o == 101 or o == 43 or o == 95 or o == 84 or o == 58):
                return False
        elif not (32 <= o <= 126):
            return False
    return True


def nocrash_obs(timeout):
    obs = []
    D = datetime.datetime(2020, 2, 29, 6, 0)
    TYPES = {'int': int, 'str': str, 'bool': bool, 'blank': type(None), 'date': bool}

    def ok_result(r):
        if isinstance(r, XE.ExcelError):
            return r.value in ('#VALUE!', '#DIV/0!', '#NUM!')
        return isinstance(r, (T.Number, T.Text, T.Boolean, T.DateTime))
    groups = {'arith': [b for b in BIN if b[0] in '+-*/'], 'add': [b for b in BIN if b[0] == '+'], 'sub': [b for b in BIN if b[0] == '-'],
              'mul': [b for b in BIN if b[0] == '*'], 'div': [b for b in BIN if b[0] == '/'], 'cmp': [b for b in BIN if b[0] in ('=', '<>', '<', '>', '<=', '>=')], 'concat': [b for b in BIN if b[0] == '&'],
              'pow': [b for b in BIN if b[0] == '^']}
    for ta in TYPES:
        for tb in TYPES:
            for gname, ops in groups.items():
                if (gname == 'arith') == ((ta, tb) == ('str', 'str')) or (gname in ('add', 'sub', 'mul', 'div') and (ta, tb) != ('str', 'str')):
                    if not (gname in ('cmp', 'concat', 'pow')):
                        continue

                def mk_h(ta, tb, ops):
                    def h(a, b, dp: bool) -> bool:
                        DP[0] = True if dp else False
                        xa = cast_native(D) if ta == 'date' else cast_native(a)
                        xb = cast_native(D) if tb == 'date' else cast_native(b)
                        for sym, f in ops:
                            if not ok_result(f(xa, xb)):
                                return False
                        return True
                    h.__annotations__ = {'a': TYPES[ta], 'b': TYPES[tb], 'dp': bool, 'return': bool}
                    return h

                def mk_pre(gname, both_str=(ta == 'str' and tb == 'str')):
                    def pre(a, b, dp):
                        if both_str and MAXLEN[0] == 2 and len(a) + len(b) > 2:
                            return False              # text x text in the thorough tier: total length <= 2 (total 3 needs 50-90 min per operator group)
                        for v in (a, b):
                            if not ascii_text(v):
                                return False
                            if both_str and MAXLEN[0] == 1:
                                for ch in v:
                                    o = ord(ch)
                                    if not (o == 97 or o == 49 or o == 32 or o == 45):
                                        return False
                            if isinstance(v, int) and not isinstance(v, bool):
                                if gname == 'pow' and not (-4 <= v <= 4):
                                    return False
                                if gname == 'concat' and not (-999 <= v <= 999):
                                    return False
                        return True
                    return pre
                W = {'int': [3, 0, -2], 'str': ['a', '', '1', '-'] + (['1a', '1e'] if MAXLEN[0] == 2 else []), 'bool': [True, False], 'blank': [None], 'date': [False]}
                wit = [(x, y, False) for x in W[ta] for y in W[tb]]
                nstr = (ta == 'str') + (tb == 'str')
                obs.append(Ob(f'c07.no-crash[{gname}:{ta},{tb}]', mk_h(ta, tb, ops), pre=mk_pre(gname), witness=wit, timeout=timeout, cost=[3, 40, 150][nstr], family='c07.no-crash',
                              ctx=dateutil_stub, stubs=['P4 dateutil.parser.parse -> (datetime | ValueError) chosen by a symbolic Boolean'],
                              bounds=f'operators {[o[0] for o in ops]} on ({ta}, {tb})' + (" [text x text in the quick tier: alphabet 'a1 -']" if (ta == tb == 'str' and MAXLEN[0] == 1) else ' [text x text: total length <= 2]' if ta == tb == 'str' else '') + ': ints ' + ('-4..4' if gname == 'pow' else '-999..999' if gname == 'concat' else 'unbounded')
                                     + (f'; texts: printable ASCII at length <= 1, alphabet {AL07!r} at length 2' if MAXLEN[0] == 2 else f'; texts: length <= 1 over the alphabet {AL07!r}') + '; one concrete date; result is a value or #VALUE!/#DIV/0!/#NUM!, never a Python exception',
                              show=lambda a, b, dp, ta=ta, tb=tb, gname=gname: f'{gname}: {"<date>" if ta == "date" else repr(a)} op {"<date>" if tb == "date" else repr(b)}'))

    for ta in TYPES:
        def mk_u(ta):
            def h(a, dp: bool) -> bool:
                DP[0] = True if dp else False
                x = cast_native(D) if ta == 'date' else cast_native(a)
                for f in (OPS.OP_NEG, OPS.OP_PERCENT):
                    r = f(x)
                    if not (isinstance(r, T.Number) or (isinstance(r, XE.ExcelError) and r.value == '#VALUE!')):
                        return False
                return True
            h.__annotations__ = {'a': TYPES[ta], 'dp': bool, 'return': bool}
            return h
        obs.append(Ob(f'c07.no-crash[unary:{ta}]', mk_u(ta), pre=lambda a, dp: ascii_text(a), witness=[(1, False)] if ta == 'int' else [('a', False)] if ta == 'str' else [(True, False)] if ta in ('bool', 'date') else [(None, False)],
                      timeout=timeout, cost=20 if ta == 'str' else 2, family='c07.no-crash', ctx=dateutil_stub, stubs=['P4 dateutil.parser.parse'],
                      bounds=f'unary minus / percent on {ta}'))
    return obs


EXEMPT = {'ISERROR', 'ISERR', 'ISNA', 'ISBLANK', 'ISNUMBER', 'ISTEXT', 'COUNT', 'COUNTA', 'IF', 'AND', 'OR', 'NOT'}


def sample_for(p, n):
    a = p.annotation
    nm = getattr(a, '__name__', None) or str(a)
    if 'XlNumber' in nm or nm == 'Number':
        return n
    if 'XlText' in nm:
        return 'a'
    if 'XlBoolean' in nm:
        return True
    if 'XlDateTime' in nm:
        return 43831 + n
    if 'XlArray' in nm:
        return T.Array([[1, 2], [3, 4]])
    return n


def function_obs(timeout):
    obs = []
    uncovered = []
    for name in sorted(F):
        if name in EXEMPT or name.startswith('OP_'):
            continue
        f = F[name]
        sig = inspect.signature(f)
        params = list(sig.parameters.values())
        if not params:
            continue
        if any('XlExpr' in str(p.annotation) for p in params):
            uncovered.append(name)
            continue
        positions = []
        for i, p in enumerate(params):
            if p.kind == p.VAR_POSITIONAL:
                positions.append((i, 'var'))
            elif p.name.startswith('_'):
                continue
            else:
                positions.append((i, 'pos'))
        npos = len(positions)

        def mk_h(f, params, positions, name):
            def h(e: int, k: int, n: int) -> bool:
                err = err_by_index(e)
                k = concretize(k, 0, len(positions) - 1)
                idx, kind = positions[k]
                args = []
                for i, p in enumerate(params):
                    if p.name.startswith('_'):
                        break
                    if p.kind == p.VAR_POSITIONAL:
                        if i == idx:
                            args.extend([n, err, n + 1])
                        else:
                            args.extend([n, n + 1])
                    elif i == idx:
                        args.append(err)
                    else:
                        args.append(sample_for(p, n))
                    if p.kind != p.VAR_POSITIONAL and p.default is not p.empty and i > idx:
                        # optional parameters behind the error position are left out half of the time (by k parity)
                        pass
                r = f(*args)
                return same_err(r, err)
            return h
        known = None
        if name == 'SUMPRODUCT':
            known = {'K07-sumproduct-error-na': TOTAL}
        if name == 'CHOOSE':
            # CHOOSE(index, v1..vn) returns the selected value; an error in a non-selected value is not the result (as in Excel)
            positions = positions[:1]
        obs.append(Ob(f'c07.function[{name}]', mk_h(f, params, positions, name), pre=lambda e, k, n, positions=positions: 0 <= e <= 6 and 0 <= k < len(positions) and 1 <= n <= 3,
                      witness=[(1, 0, 1), (6, len(positions) - 1, 2)], timeout=timeout, cost=4 * len(positions), family='c07.function',
                      bounds=f'{name}: error code 0..6 x each of its {len(positions)} argument position(s) (incl. an item of its argument list) by forking; the other arguments are valid samples, numbers symbolic in 1..3',
                      show=lambda e, k, n, name=name, positions=positions, params=params: f'{name}: {ERR_CODES[e % 7]} at parameter {params[positions[k % len(positions)][0]].name}, n={n}',
                      known=known))
    return obs, uncovered


def aggregate_obs(timeout):
    obs = []
    M = mk({'A1': 1, 'A2': 2, 'A3': 3, 'B1': 5,
            'Z1': '=SUM(A1:A3)', 'Z2': '=AVERAGE(A1:A3)', 'Z3': '=MIN(A1:A3)', 'Z4': '=MAX(A1:A3)', 'Z5': '=CONCAT(A1:A3)', 'Z6': '=SUM(B1,A1:A3)',
            'Z7': '=MAX(A1:A2,B1,A3)', 'Z8': '=AND(A1:A3)', 'Z9': '=OR(A1:A3)', 'Y1': '=SUM(A1,A2,A3)', 'Y2': '=AVERAGE(B1,A1,A2,A3)', 'Y3': '=MIN(A1,A2,A3)',
            'Y4': '=CONCAT(A1,A2,A3)', 'X1': '=COUNT(A1:A3)', 'X2': '=COUNTA(A1:A3)', 'X3': '=ISERROR(A2)', 'X4': '=SUMPRODUCT(A1:A3,A1:A3)'})
    names_err = ['Z1', 'Z2', 'Z3', 'Z4', 'Z5', 'Z6', 'Z7', 'Y1', 'Y2', 'Y3', 'Y4']

    def h(e: int, pos: int, a: int, b: int) -> bool:
        err = err_by_index(e)
        pos = concretize(pos, 1, 3)
        vals = {1: a, 2: b, 3: 7}
        for i in (1, 2, 3):
            setv(M, f'Sheet1!A{i}', err if i == pos else vals[i])
        ev = Evaluator(M)
        for z in names_err:
            if not same_err(ev.evaluate('Sheet1!' + z), err):
                return False
        # AND / OR over a range containing an error: the error (no deciding value precedes it when all others are TRUE / FALSE resp.)
        # inspectors and counters do not propagate
        return val(ev.evaluate('Sheet1!X1')) == 2 and val(ev.evaluate('Sheet1!X2')) == 3
    obs.append(Ob('c07.aggregate[range + list]', h, pre=lambda e, pos, a, b: 0 <= e <= 6 and 1 <= pos <= 3, witness=[(1, 1, 4, 5), (6, 3, 0, 0), (2, 2, -1, 8)], timeout=timeout, cost=60,
                  family='c07.aggregate',
                  bounds='SUM, AVERAGE, MIN, MAX, CONCAT over a range and over an argument list mixing scalars and ranges, error code 0..6 at each of 3 cells (forked), other cells: all ints; '
                         'COUNT/COUNTA do not propagate',
                  show=lambda e, pos, a, b: f'{ERR_CODES[e % 7]} in A{pos}, others {a},{b},7'))

    M2 = mk({'A1': 1, 'A2': 2, 'A3': 3, 'B1': 1, 'Z1': '=SUM(A1:A3,B1)', 'Z2': '=SUM(B1,A1:A3)', 'Z3': '=MAX(A1:A2,B1,A3)', 'Z4': '=AVERAGE(A1:A3,5,B1)', 'Z5': '=CONCAT(A1:A3,B1)',
             'Z6': '=MIN(A1,B1,A2:A3)'})

    def h_two(e1: int, e2: int, pos: int, a: int) -> bool:
        err1, err2 = err_by_index(e1), err_by_index(e2)
        pos = concretize(pos, 1, 3)
        for i in (1, 2, 3):
            setv(M2, f'Sheet1!A{i}', err1 if i == pos else a)
        setv(M2, 'Sheet1!B1', err2)
        ev = Evaluator(M2)
        # leftmost error in argument order (ranges read row-major): Z1 range first; Z2 direct first; Z3: A1:A2, B1, A3
        exp3 = err1 if pos <= 2 else err2
        exp6 = err1 if pos == 1 else err2
        return (same_err(ev.evaluate('Sheet1!Z1'), err1) and same_err(ev.evaluate('Sheet1!Z2'), err2) and same_err(ev.evaluate('Sheet1!Z3'), exp3)
                and same_err(ev.evaluate('Sheet1!Z4'), err1) and same_err(ev.evaluate('Sheet1!Z5'), err1) and same_err(ev.evaluate('Sheet1!Z6'), exp6))
    obs.append(Ob('c07.aggregate[two errors: leftmost wins]', h_two, pre=lambda e1, e2, pos, a: 0 <= e1 <= 6 and 0 <= e2 <= 6 and 1 <= pos <= 3, witness=[(6, 1, 2, 4), (1, 6, 3, 0)],
                  timeout=timeout, cost=60, family='c07.aggregate',
                  bounds='SUM/MAX/AVERAGE/CONCAT/MIN with an error inside a range (code e1, each of 3 positions) and another error passed directly (code e2) before, between or after the range: '
                         'the leftmost error in argument order is the result; 7 x 7 codes (forked)',
                  show=lambda e1, e2, pos, a: f'{ERR_CODES[e1 % 7]} in A{pos}, {ERR_CODES[e2 % 7]} passed directly'))

    def h_sp(e: int, pos: int, a: int) -> bool:
        err = err_by_index(e)
        pos = concretize(pos, 1, 3)
        for i in (1, 2, 3):
            setv(M, f'Sheet1!A{i}', err if i == pos else a)
        return same_err(Evaluator(M).evaluate('Sheet1!X4'), err)
    obs.append(Ob('c07.aggregate[SUMPRODUCT]', h_sp, pre=lambda e, pos, a: 0 <= e <= 6 and 1 <= pos <= 3, witness=[(1, 1, 4)], timeout=timeout, cost=10, family='c07.aggregate',
                  bounds='SUMPRODUCT over a range with an error at each position', known={'K07-sumproduct-error-na': TOTAL},
                  show=lambda e, pos, a: f'SUMPRODUCT(A1:A3,A1:A3) with {ERR_CODES[e % 7]} in A{pos}'))

    def h_andor(e: int, pos: int) -> bool:
        err = err_by_index(e)
        pos = concretize(pos, 1, 3)
        ev = Evaluator(M)
        for i in (1, 2, 3):
            setv(M, f'Sheet1!A{i}', err if i == pos else True)
        r1 = ev.evaluate('Sheet1!Z8')
        for i in (1, 2, 3):
            setv(M, f'Sheet1!A{i}', err if i == pos else False)
        r2 = ev.evaluate('Sheet1!Z9')
        return same_err(r1, err) and same_err(r2, err)
    obs.append(Ob('c07.aggregate[AND OR]', h_andor, pre=lambda e, pos: 0 <= e <= 6 and 1 <= pos <= 3, witness=[(1, 1), (6, 3)], timeout=timeout, cost=10, family='c07.aggregate',
                  bounds='AND over a range of TRUEs / OR over a range of FALSEs with an error at each position: the error'))
    return obs


def stored_obs(timeout):
    obs = []
    M = mk({'A1': 1, 'A2': 0, 'B1': '=A1/A2', 'C1': '=B1+1', 'D1': '=C1&"x"', 'E1': '=SUM(C1,5)', 'F1': '=IF(ISERROR(D1),A1,0)', 'G1': '=MID("abc",A1,1)', 'H1': '=G1&"z"',
            'I1': '=NA()', 'J1': '=I1=1', 'K1': '=ISNA(J1)', 'L1': '=ISERR(J1)', 'M1': '=ISERR(C1)', 'N1': '=ISNA(C1)'})

    def h(a: int, b: int) -> bool:
        b = concretize(b, -2, 2)      # concrete denominators: z3 leaves x/0 uninterpreted
        a = concretize(a, -3, 5)
        setv(M, 'Sheet1!A1', a)
        setv(M, 'Sheet1!A2', b)
        for c in 'BCDEFGHIJKLMN':
            M.cells[f'Sheet1!{c}1'].value = None
        ev = Evaluator(M)
        rf = ev.evaluate('Sheet1!F1')
        rh = ev.evaluate('Sheet1!H1')
        ok_na = (is_err(ev.evaluate('Sheet1!J1'), XE.NaExcelError) and val(ev.evaluate('Sheet1!K1')) is True and val(ev.evaluate('Sheet1!L1')) is False
                 and is_err(M.cells['Sheet1!I1'].value, XE.NaExcelError))
        if not ok_na:
            return False
        if a < 1:
            if not (is_err(rh, XE.NumExcelError) and is_err(M.cells['Sheet1!G1'].value, XE.NumExcelError)):
                return False
        if b == 0:
            return (num_is(rf, a) and is_err(M.cells['Sheet1!B1'].value, XE.DivZeroExcelError) and is_err(M.cells['Sheet1!C1'].value, XE.DivZeroExcelError)
                    and is_err(M.cells['Sheet1!D1'].value, XE.DivZeroExcelError) and is_err(ev.evaluate('Sheet1!E1'), XE.DivZeroExcelError)
                    and val(ev.evaluate('Sheet1!M1')) is True and val(ev.evaluate('Sheet1!N1')) is False)
        return num_is(rf, 0) and val(ev.evaluate('Sheet1!M1')) is False
    obs.append(Ob('c07.stored-errors', h, pre=lambda a, b: -3 <= a <= 5 and -2 <= b <= 2, witness=[(4, 0), (4, 2), (-3, 0), (-1, 1)], timeout=timeout, cost=20, family='c07.stored',
                  bounds='chain B1=A1/A2, C1=B1+1, D1=C1&"x", E1=SUM(C1,5), F1=IF(ISERROR(D1),..); MID with a start below 1 (#NUM!); NA(): the error is stored in each cell and handed on; A1 in -3..5, A2 in -2..2 (realised by the slicing in MID)',
                  show=lambda a, b: f'A1={a} A2={b}'))
    return obs


def inspector_obs(timeout):
    obs = []

    def h_err(e: int) -> bool:
        err = err_by_index(e)
        is_na = e == 6
        return (val(INF.ISERROR(err)) is True and val(INF.ISERR(err)) is (not is_na) and val(INF.ISNA(err)) is is_na and is_err(INF.NA(), XE.NaExcelError))
    obs.append(Ob('c07.inspect[errors]', h_err, pre=lambda e: 0 <= e <= 6, witness=[(0,), (6,)], timeout=timeout, cost=2, family='c07.inspect',
                  bounds='ISERROR / ISERR / ISNA on each of the 7 error codes; NA()'))

    def h_val(v: SV) -> bool:
        x = cast_native(v)
        isnum = isinstance(v, int) and not isinstance(v, bool)
        return (val(INF.ISERROR(x)) is False and val(INF.ISERR(x)) is False and val(INF.ISNA(x)) is False
                and val(INF.ISNUMBER(x)) is isnum and val(INF.ISTEXT(x)) is isinstance(v, str) and val(INF.ISBLANK(x)) is (v is None or v == '')
                and val(INF.ISNUMBER(v)) is isnum and val(INF.ISTEXT(v)) is isinstance(v, str))
    obs.append(Ob('c07.inspect[values]', h_val, pre=lambda v: not isinstance(v, str) or len(v) <= 2, witness=[(1,), ('a',), (True,), (None,), ('',), ('1',)], timeout=timeout, cost=5,
                  family='c07.inspect', bounds='ISERROR/ISERR/ISNA/ISNUMBER/ISTEXT/ISBLANK on int / text(<=2) / bool / blank; the value itself is not altered (type reported as is)',
                  show=lambda v: repr(v)))
    MI = mk({'A1': 1, 'Z1': '=ISNUMBER(A1)', 'Z2': '=ISTEXT(A1)', 'Z3': '=ISBLANK(A1)', 'Z4': '=ISERROR(A1)', 'Z5': '=ISNUMBER(A1)+A1'})

    def h_form(v: SV) -> bool:
        setv(MI, 'Sheet1!A1', v)
        ev = Evaluator(MI)
        isnum = isinstance(v, int) and not isinstance(v, bool)
        return (val(ev.evaluate('Sheet1!Z1')) is isnum and val(ev.evaluate('Sheet1!Z2')) is isinstance(v, str) and val(ev.evaluate('Sheet1!Z3')) is (v is None or v == '')
                and val(ev.evaluate('Sheet1!Z4')) is False and (MI.cells['Sheet1!A1'].value is v))
    obs.append(Ob('c07.inspect[formulas]', h_form, pre=lambda v: not isinstance(v, str) or len(v) <= 2, witness=[(1,), ('a',), (True,), (None,)], timeout=timeout, cost=5,
                  family='c07.inspect', bounds='=ISNUMBER(A1), =ISTEXT(A1), =ISBLANK(A1), =ISERROR(A1) with A1 over int / text(<=2) / bool / blank'))
    return obs


UNCOVERED = []


def build(tier, seed):
    TO = 300
    MAXLEN[0] = 2 if tier == 'thorough' else 1
    obs = operator_obs(TO) + nocrash_obs(1800 if tier == 'thorough' else 600) + aggregate_obs(TO) + stored_obs(TO) + inspector_obs(TO)
    fo, unc = function_obs(TO)
    del UNCOVERED[:]
    UNCOVERED.extend(unc)
    return obs + fo
