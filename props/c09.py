"""C09 — comparison operators implement one total order on values."""
import datetime

from vf.ob import Ob
from props.common import *  # noqa
from xlcalculator.xlfunctions import operator as OPS

EXPLANATION = ('The six comparison operators are executed symbolically (as library calls on values cast exactly as the evaluator casts cell '
               'contents, and as formulas =A1 op B1 over a compiled model) for every pair of operand types; z3 decides on every path equality with '
               'the key order number < text (case-insensitive) < FALSE < TRUE written in the harness; trichotomy, duality and transitivity are '
               'asserted directly on pairs/triples as well.')
ASSUMPTIONS = ['P1, P2, P6 (floats as reals)', 'texts up to the stated length over all code points; case folding = str.upper() as stated in the property',
               'dates are concrete datetime objects compared with symbolic serial numbers']
TRUSTED = ['oracle key() in props/c09.py']

OPF = [('<', OPS.OP_LT), ('<=', OPS.OP_LE), ('=', OPS.OP_EQ), ('<>', OPS.OP_NE), ('>', OPS.OP_GT), ('>=', OPS.OP_GE)]


def key(v):
    if isinstance(v, bool):
        return (2, int(v), '')
    if isinstance(v, str):
        return (1, 0, v.upper())
    return (0, v, '')


def klt(a, b):
    ka, kb = key(a), key(b)
    if ka[0] != kb[0]:
        return ka[0] < kb[0]
    if ka[0] == 1:
        return ka[2] < kb[2]
    return ka[1] < kb[1]


def keq(a, b):
    ka, kb = key(a), key(b)
    if ka[0] != kb[0]:
        return False
    if ka[0] == 1:
        return ka[2] == kb[2]
    return ka[1] == kb[1]


def expected(a, b):
    lt, eq = klt(a, b), keq(a, b)
    return {'<': lt, '<=': lt or eq, '=': eq, '<>': not eq, '>': (not lt) and (not eq), '>=': not lt}


def tv(r):
    """Truth value of a comparison result; None if it is not a Boolean."""
    if isinstance(r, T.Boolean):
        return bool(r.value)
    if isinstance(r, bool):
        return r
    return None


MODEL = mk({'A1': 1, 'B1': 1, 'Z1': '=A1<B1', 'Z2': '=A1<=B1', 'Z3': '=A1=B1', 'Z4': '=A1<>B1', 'Z5': '=A1>B1', 'Z6': '=A1>=B1'})


def check_lib(a, b, only=None):
    exp = expected(a, b)
    xa, xb = cast_native(a), cast_native(b)
    for name, f in OPF:
        if only is not None and name != only:
            continue
        if tv(f(xa, xb)) is not exp[name]:
            return False
    return True


def check_formula(a, b, only=None):
    exp = expected(a, b)
    setv(MODEL, 'Sheet1!A1', a)
    setv(MODEL, 'Sheet1!B1', b)
    ev = Evaluator(MODEL)
    for i, (name, f) in enumerate(OPF):
        if only is not None and name != only:
            continue
        if tv(ev.evaluate(f'Sheet1!Z{i + 1}')) is not exp[name]:
            return False
    return True


AL = 'aAbZ1 '


def in_alpha(s):
    for ch in s:
        if ch not in AL:
            return False
    return True


TYPES = {'int': int, 'str': str, 'bool': bool, 'float': float}
# float witnesses include pairs that differ only beyond the 15th significant digit (doubles, replayed natively: the symbolic part treats floats as reals)
WIT = {'int': [5, -1, 0], 'str': ['a', 'B', '', '1'], 'bool': [True, False], 'float': [1.5, -0.25, 0.1 + 0.2, 0.3, 1e15 + 0.25, 1e15 + 0.5]}


def pair_obs(maxlen, timeout, known):
    obs = []
    for ta in ('int', 'str', 'bool', 'float'):
        for tb in ('int', 'str', 'bool', 'float'):
            if 'float' in (ta, tb) and ('str' in (ta, tb) or 'bool' in (ta, tb)):
                continue  # float vs text/bool adds nothing over int vs text/bool (precedence only)
            variants = [(kind, chk, None) for kind, chk in (('lib', check_lib), ('formula', check_formula))]
            if (ta, tb) == ('str', 'str'):
                # one obligation per operator: the string order under upper() is expensive for z3
                variants = [(f'{kind} {opn}', chk, opn) for kind, chk, _ in variants for opn, _f in OPF]
            for kind, chk, only in variants:
                def mk_h(chk, ta, tb, only=only):
                    def h(a, b) -> bool:
                        return chk(a, b, only)
                    h.__annotations__ = {'a': TYPES[ta], 'b': TYPES[tb], 'return': bool}
                    return h

                def mk_pre(ta, tb):
                    def pre(a, b):
                        if ta == 'str' and tb == 'str':
                            # text vs text: z3's string order under upper() is the cost driver
                            return len(a) <= maxlen and len(b) <= maxlen and in_alpha(a) and in_alpha(b)
                        if ta == 'str' and len(a) > maxlen:
                            return False
                        if tb == 'str' and len(b) > maxlen:
                            return False
                        if ta == 'float' and not (-1e6 <= a <= 1e6):
                            return False
                        if tb == 'float' and not (-1e6 <= b <= 1e6):
                            return False
                        return True
                    return pre
                wit = [(x, y) for x in WIT[ta] for y in WIT[tb]]
                obs.append(Ob(f'c09.pair[{ta},{tb},{kind}]', mk_h(chk, ta, tb), pre=mk_pre(ta, tb), witness=wit, timeout=timeout * (4 if (ta, tb) == ('str', 'str') else 1),
                              cost=(150 if (ta, tb) == ('str', 'str') else 50) if 'str' in (ta, tb) else 3, family='c09.pair',
                              bounds=f'a: {ta}, b: {tb}; texts: ' + (f'alphabet {AL!r}' if (ta, tb) == ('str', 'str') else 'all code points') + f', length <= {maxlen}; ints unbounded; floats in +-1e6 (reals); all six operators '
                                     + ('as OP_* calls on values cast as the evaluator casts them' if kind.startswith('lib') else 'as formulas =A1 op B1')
                                     + (f' (operator {only} only)' if only else ''),
                              show=lambda a, b: f'a={a!r} b={b!r}: expected {expected(a, b)}',
                              known=known.get((ta, tb))))
    for kind, chk in (('lib', check_lib), ('formula', check_formula)):
        def mk_h1(chk):
            def h(a: str, b: str) -> bool:
                return chk(a, b)
            return h
        obs.append(Ob(f'c09.pair[str,str,{kind},unicode]', mk_h1(chk), pre=lambda a, b: len(a) <= 1 and len(b) <= 1, witness=[('a', 'B'), ('é', 'É'), ('', 'a')],
                      timeout=timeout, cost=40, family='c09.pair', bounds='text vs text over all code points, length <= 1; all six operators',
                      show=lambda a, b: f'a={a!r} b={b!r}: expected {expected(a, b)}'))
    return obs


SPECIAL = ['true', 'TRUE', 'False', 'false', '1', '0', '12', '-1', '', 'a', '1e2', '2020-01-01', ' ']


def special_obs(timeout):
    """Boolean-looking / numeric-looking / date-looking texts (a concrete list, forked) against booleans, ints and each other."""
    obs = []
    n = len(SPECIAL)

    def h_bool(i: int, b: bool) -> bool:
        t = SPECIAL[concretize(i, 0, n - 1)]
        return check_lib(t, b) and check_lib(b, t) and check_formula(t, b) and check_formula(b, t)
    obs.append(Ob('c09.special-texts[vs boolean]', h_bool, pre=lambda i, b: 0 <= i < n, witness=[(0, True), (2, False), (4, True)], timeout=timeout, cost=15, family='c09.special',
                  bounds=f'texts {SPECIAL} (forked) vs TRUE/FALSE, both operand orders, library and formula forms: every text ranks below FALSE and is never equal to a boolean',
                  show=lambda i, b: f'{SPECIAL[i % n]!r} vs {b}'))

    def h_int(i: int, k: int) -> bool:
        t = SPECIAL[concretize(i, 0, n - 1)]
        return check_lib(t, k) and check_lib(k, t) and check_formula(t, k) and check_formula(k, t)
    obs.append(Ob('c09.special-texts[vs number]', h_int, pre=lambda i, k: 0 <= i < n, witness=[(4, 1), (6, 12), (8, 0)], timeout=timeout, cost=15, family='c09.special',
                  bounds=f'texts {SPECIAL} (forked) vs any int: every number is smaller than every text (numeric-looking text is still text)',
                  show=lambda i, k: f'{SPECIAL[i % n]!r} vs {k}'))

    def h_txt(i: int, j: int) -> bool:
        t, u = SPECIAL[concretize(i, 0, n - 1)], SPECIAL[concretize(j, 0, n - 1)]
        return check_lib(t, u) and check_formula(t, u)
    obs.append(Ob('c09.special-texts[vs each other]', h_txt, pre=lambda i, j: 0 <= i < n and 0 <= j < n, witness=[(0, 1), (4, 6), (8, 9)], timeout=timeout, cost=30, family='c09.special',
                  bounds=f'all ordered pairs of the texts {SPECIAL}: case-insensitive text order',
                  show=lambda i, j: f'{SPECIAL[i % n]!r} vs {SPECIAL[j % n]!r}'))
    return obs


def law_obs(maxlen, timeout):
    """Laws asserted directly on the implementation (no oracle): trichotomy, duality, derived operators, transitivity."""
    obs = []

    def ops(a, b):
        xa, xb = cast_native(a), cast_native(b)
        return {n: tv(f(xa, xb)) for n, f in OPF}

    def laws2(a, b):
        o = ops(a, b)
        r = ops(b, a)
        if None in o.values() or None in r.values():
            return False
        tri = (1 if o['<'] else 0) + (1 if o['='] else 0) + (1 if o['>'] else 0)
        return (tri == 1 and o['<='] == (o['<'] or o['=']) and o['>='] == (o['>'] or o['=']) and o['<>'] == (not o['='])
                and o['<'] == r['>'] and o['='] == r['='])

    from typing import Union
    U = Union[int, str, bool]

    def h2(a: U, b: U) -> bool:
        return laws2(a, b)
    ml = 1
    if maxlen > 2:
        def h2s(a: str, b: str) -> bool:
            return laws2(a, b)
        obs.append(Ob('c09.laws[text pairs]', h2s, pre=lambda a, b: len(a) <= 2 and len(b) <= 2 and in_alpha(a) and in_alpha(b),
                      witness=[('a', 'B'), ('1', '10'), ('', 'a'), ('Tr', 'tR')], timeout=timeout, cost=60, family='c09.laws',
                      bounds=f'a, b: str(len <= 2, alphabet {AL!r}): trichotomy, <=/>=/<> derived, a<b iff b>a, = symmetric', show=lambda a, b: f'a={a!r} b={b!r}'))
    obs.append(Ob('c09.laws[pairs]', h2, pre=lambda a, b: (not isinstance(a, str) or (len(a) <= ml and in_alpha(a))) and (not isinstance(b, str) or (len(b) <= ml and in_alpha(b))),
                  witness=[(1, 'a'), ('a', True), (True, 1), ('1', 5), ('', 0), ('', False), ('TRUE', True)], timeout=timeout, cost=60, family='c09.laws',
                  bounds=f'a, b over Union[int, str(len <= {ml}, alphabet {AL!r}), bool] (type by forking): trichotomy, <=/>=/<> derived, a<b iff b>a, = symmetric',
                  show=lambda a, b: f'a={a!r} b={b!r}'))

    def h3(a: U, b: U, c: U) -> bool:
        xa, xb, xc = cast_native(a), cast_native(b), cast_native(c)
        if tv(OPS.OP_LT(xa, xb)) and tv(OPS.OP_LT(xb, xc)):
            return tv(OPS.OP_LT(xa, xc)) is True
        return True
    obs.append(Ob('c09.laws[transitivity]', h3,
                  pre=lambda a, b, c: all((not isinstance(x, str) or (len(x) <= 1 and in_alpha(x))) for x in (a, b, c)),
                  witness=[(1, 'a', True), ('a', 'b', 'Z'), (1, 2, 3)], timeout=timeout * 2, cost=120, family='c09.laws',
                  bounds=f'a, b, c over Union[int, str(len <= 1, alphabet {AL!r}), bool]: a<b and b<c implies a<c', show=lambda a, b, c: f'a={a!r} b={b!r} c={c!r}'))
    return obs


def date_blank_obs(timeout):
    obs = []
    D1 = datetime.datetime(2020, 1, 1)
    S1 = 43831    # serial of 2020-01-01
    D2 = datetime.datetime(1999, 12, 31, 12, 0)

    def h_date(n: int) -> bool:
        xd = cast_native(D1)
        xn = cast_native(n)
        lt, gt, eq = tv(OPS.OP_LT(xn, xd)), tv(OPS.OP_GT(xn, xd)), tv(OPS.OP_EQ(xn, xd))
        rl, rg, re_ = tv(OPS.OP_LT(xd, xn)), tv(OPS.OP_GT(xd, xn)), tv(OPS.OP_EQ(xd, xn))
        return (lt is (n < S1) and gt is (n > S1) and eq is (n == S1) and rl is (S1 < n) and rg is (S1 > n) and re_ is (n == S1))
    obs.append(Ob('c09.date[vs number]', h_date, witness=[(5,), (43831,), (50000,)], timeout=timeout, cost=5, family='c09.date',
                  bounds='n: all ints vs the date 2020-01-01 (serial 43831): dates order as their serials', show=lambda n: f'n={n} vs 2020-01-01'))

    def h_date_text(s: str) -> bool:
        xd, xs = cast_native(D2), cast_native(s)
        return tv(OPS.OP_LT(xd, xs)) is True and tv(OPS.OP_GT(xs, xd)) is True and tv(OPS.OP_LT(xs, xd)) is False and tv(OPS.OP_EQ(xs, xd)) is False
    obs.append(Ob('c09.date[vs text]', h_date_text, pre=lambda s: len(s) <= 2, witness=[('a',), ('',), ('1',)], timeout=timeout, cost=10, family='c09.date',
                  bounds='s: text length <= 2 vs a date: every number (date) is smaller than every text', show=lambda s: f's={s!r} vs 1999-12-31 12:00'))

    def h_date_bool(b: bool) -> bool:
        xd, xb = cast_native(D2), cast_native(b)
        return tv(OPS.OP_LT(xd, xb)) is True and tv(OPS.OP_GT(xb, xd)) is True and tv(OPS.OP_EQ(xb, xd)) is False
    obs.append(Ob('c09.date[vs boolean]', h_date_bool, witness=[(True,), (False,)], timeout=timeout, cost=2, family='c09.date', bounds='b: bool vs a date'))

    def h_date_date(k: int) -> bool:
        a = cast_native(datetime.datetime(2020, 1, 1))
        b = cast_native(datetime.datetime(2020, 1, 1) + datetime.timedelta(days=[-400, -1, 0, 1, 366][k]))
        d = [-400, -1, 0, 1, 366][k]
        return tv(OPS.OP_LT(a, b)) is (0 < d) and tv(OPS.OP_EQ(a, b)) is (d == 0) and tv(OPS.OP_GT(a, b)) is (0 > d)
    obs.append(Ob('c09.date[vs date]', h_date_date, pre=lambda k: 0 <= k <= 4, witness=[(0,), (2,), (4,)], timeout=timeout, cost=2, family='c09.date',
                  bounds='two concrete dates, 5 offsets (forked)'))

    # blanks: equal to 0, "" and FALSE; two blanks equal.  Through formulas over empty cells and through the library.
    MB = mk({'B1': 0, 'Z1': '=A1=B1', 'Z2': '=B1=A1', 'Z3': '=A1<>B1', 'Z4': '=A1=C1', 'Z5': '=A1<>C1', 'Z6': '=C1=A1'})

    def h_blank_num(n: int) -> bool:
        setv(MB, 'Sheet1!B1', n)
        ev = Evaluator(MB)
        return (tv(ev.evaluate('Sheet1!Z1')) is (n == 0) and tv(ev.evaluate('Sheet1!Z2')) is (n == 0) and tv(ev.evaluate('Sheet1!Z3')) is (n != 0))
    obs.append(Ob('c09.blank[= number]', h_blank_num, witness=[(0,), (3,)], timeout=timeout, cost=3, family='c09.blank',
                  bounds='empty cell A1 vs B1 = n (all ints): blank = n iff n = 0, both operand orders, and <>', show=lambda n: f'=A1=B1, =B1=A1, =A1<>B1 with A1 empty, B1={n}'))

    def h_blank_text(s: str) -> bool:
        setv(MB, 'Sheet1!B1', s)
        ev = Evaluator(MB)
        return (tv(ev.evaluate('Sheet1!Z1')) is (s == '') and tv(ev.evaluate('Sheet1!Z2')) is (s == '') and tv(ev.evaluate('Sheet1!Z3')) is (s != ''))
    obs.append(Ob('c09.blank[= text]', h_blank_text, pre=lambda s: len(s) <= 2, witness=[('',), ('a',)], timeout=timeout, cost=10, family='c09.blank',
                  bounds='empty cell vs text s (length <= 2): blank = s iff s is empty', show=lambda s: f'=A1=B1, =B1=A1 with A1 empty, B1={s!r}'))

    def h_blank_bool(b: bool) -> bool:
        setv(MB, 'Sheet1!B1', b)
        ev = Evaluator(MB)
        return (tv(ev.evaluate('Sheet1!Z1')) is (not b) and tv(ev.evaluate('Sheet1!Z2')) is (not b) and tv(ev.evaluate('Sheet1!Z3')) is b)
    obs.append(Ob('c09.blank[= boolean]', h_blank_bool, witness=[(True,), (False,)], timeout=timeout, cost=2, family='c09.blank',
                  bounds='empty cell vs boolean: blank = FALSE', show=lambda b: f'=A1=B1, =B1=A1 with A1 empty, B1={b}'))

    def h_blank_blank(k: int) -> bool:
        ev = Evaluator(MB)
        if k == 0:
            return tv(ev.evaluate('Sheet1!Z4')) is True and tv(ev.evaluate('Sheet1!Z6')) is True and tv(ev.evaluate('Sheet1!Z5')) is False
        b1, b2 = T.BLANK, T.Blank()
        return tv(OPS.OP_EQ(b1, b2)) is True and tv(OPS.OP_NE(b1, b2)) is False and tv(OPS.OP_EQ(None, None)) is True
    obs.append(Ob('c09.blank[= blank]', h_blank_blank, pre=lambda k: 0 <= k <= 1, witness=[(0,), (1,)], timeout=timeout, cost=2, family='c09.blank',
                  bounds='two empty cells / two blank values: equal (formula and library forms, forked)', show=lambda k: '=A1=C1 with both empty' if k == 0 else 'OP_EQ(BLANK, BLANK)'))
    return obs


def build(tier, seed):
    thorough = tier == 'thorough'
    maxlen = 3 if thorough else 2
    known = {}
    obs = pair_obs(maxlen, 600 if thorough else 200, known)
    obs += law_obs(maxlen, 600 if thorough else 240)
    obs += date_blank_obs(120)
    obs += special_obs(300)
    for o in obs:
        if o.pre is not None:
            o.witness = [w for w in o.witness if o.pre(*w)]
    return obs
