"""C16 — math and rounding functions agree with exact reference values; domain errors are Excel errors."""
import datetime
import decimal
import inspect
import math
import os

import z3

from kt import kt as K
from kt import models_math as MM
from kt.ob import kt_ob
from vf.ob import Ob
from props.common import *  # noqa
from xlcalculator.xlfunctions import math as XM

EXPLANATION = ('(a) KT: the source of _round / _multiple / ROUND / ROUNDUP / ROUNDDOWN / INT / TRUNC / EVEN / FLOOR / CEILING / MOD is interpreted symbolically with the number as a '
               'z3 real (decimal value) and the digit count as a z3 integer; one query per function: the result equals Excel\'s rounding direction for EVERY real '
               'number in the range and every digit count -10..10 (the decimal context precision is modelled, so an InvalidOperation is a reachable outcome); TRUNC\'s float arithmetic is additionally '
               'translated bit-precisely (QF_FP, IEEE-754 doubles) and z3 searches a decimal that is not its own truncation. (b) XH: every function of the statement is executed by CrossHair with the C library '
               '(math / numpy) replaced by contract stubs that raise / return NaN / return infinity exactly where the documented domain ends and return an '
               'arbitrary finite value otherwise; z3 decides that the result is a finite number or an Excel error for ALL arguments, and that the '
               'library is called with the arguments the statement prescribes (ATAN2(x,y) = atan2(y,x), LOG(n,b) = log(n, b), ...).')
ASSUMPTIONS = ['KT: numbers are exact decimal reals (Decimal(str(x)) is the shortest-repr decimal of x; binary rounding of floats is modelled only in the QF_FP obligation); decimal rounding modes by their definition; '
               'Decimal / Decimal is exact (the 28-digit rounding of a non-terminating quotient is outside the model)',
               'XH/P3: math.log/sqrt/factorial and numpy arccos/arcsin/arccosh/log10/exp/cosh/... replaced by contract stubs (documented domains, NaN/inf where numpy returns them, '
               'an arbitrary finite real otherwise); replay uses the real libraries',
               'not applicable: agreement with correctly rounded IEEE-754 values to a few ulp (libm / numpy C code)']
TRUSTED = ['kt/kt.py, kt/models_math.py (Decimal, round, localcontext, math.trunc/ceil/floor models)', 'library contract table in props/c16.py']

BIG = 10 ** 15
BIG2 = 10 ** 60


def norm(leaf, model):
    if leaf.kind == 'raise':
        return ('raise', leaf.value)
    r = leaf.value
    if isinstance(r, MM.MDecimal):
        r = r.real
    if K.is_sym(r):
        v = model.eval(r, model_completion=True)
        if z3.is_int_value(v):
            return ('num', float(v.as_long()))
        if z3.is_rational_value(v):
            return ('num', round(float(v.numerator_as_long()) / v.denominator_as_long(), 9))
        return ('num', str(v))
    return ('num', round(float(r), 9))


def nat(f, *a):
    try:
        r = f(*a)
    except Exception as e:
        return ('raise', type(e).__name__)
    if isinstance(r, XE.ExcelError):
        return ('raise', type(r).__name__)
    return ('num', round(float(val(r)), 9))


def frac(a):
    return a[0] / a[1] if isinstance(a, tuple) else a


def ref_round(q, n, kind):
    mode = {'ROUND': decimal.ROUND_HALF_UP, 'ROUNDUP': decimal.ROUND_UP, 'ROUNDDOWN': decimal.ROUND_DOWN}[kind]
    return MM.round_real(q, n, mode)


def py_ref_round(x, n, kind):
    d = decimal.Decimal(str(x))
    mode = {'ROUND': decimal.ROUND_HALF_UP, 'ROUNDUP': decimal.ROUND_UP, 'ROUNDDOWN': decimal.ROUND_DOWN, 'TRUNC': decimal.ROUND_DOWN}[kind]
    with decimal.localcontext() as ctx:
        ctx.prec = 400          # the reference needs room for every digit of a double
        q = decimal.Decimal(1).scaleb(-n)
        return float(d.quantize(q, rounding=mode)) if n >= 0 else float((d / decimal.Decimal(10) ** (-n)).quantize(decimal.Decimal(1), rounding=mode) * decimal.Decimal(10) ** (-n))


def leaf_n(l, n):
    """The digit count this leaf was forked on (None if it is not fixed by the path condition)."""
    for k in range(-12, 13):
        s = z3.Solver()
        s.add(l.pc, n != k)
        if K.check(s) == z3.unsat:
            return k
    return None


# ---------------------------------------------------------------------------------------------------------------
# Bit-precise (QF_FP) obligations: where a rounding function computes on binary floats (x * 10**n ...), the exact-real model of
# the kernel translator cannot see representation error.  The function's source is translated once more, with `number` an
# IEEE-754 double, and z3 searches a decimal k / 10^n (k an integer) whose truncation to n digits is not itself.
class NotAFloatKernel(Exception):
    pass


def fp_kernel(fn, n):
    """Translate fn(number, num_digits=n) into a z3 Float64 term of `number` (straight-line subset; concrete num_digits)."""
    import ast
    import textwrap
    F64, RNE, RTZ = z3.Float64(), z3.RNE(), z3.RTZ()
    x = z3.FP('number', F64)
    fdef = ast.parse(textwrap.dedent(inspect.getsource(fn))).body[0]
    params = [a.arg for a in fdef.args.args]
    env = {params[0]: x, params[1]: n}
    g = fn.__globals__

    def lift(v):
        return v if z3.is_fp(v) else z3.FPVal(float(v), F64)

    def ev(e):
        if isinstance(e, ast.Constant):
            return e.value
        if isinstance(e, ast.Name):
            if e.id in env:
                return env[e.id]
            raise K.Unsupported('name ' + e.id)
        if isinstance(e, ast.BinOp):
            a, b = ev(e.left), ev(e.right)
            if not (z3.is_fp(a) or z3.is_fp(b)):
                return {ast.Mult: lambda: a * b, ast.Div: lambda: a / b, ast.Add: lambda: a + b, ast.Sub: lambda: a - b, ast.Pow: lambda: a ** b}[type(e.op)]()
            a, b = lift(a), lift(b)
            if isinstance(e.op, ast.Mult):
                return z3.fpMul(RNE, a, b)
            if isinstance(e.op, ast.Div):
                return z3.fpDiv(RNE, a, b)
            if isinstance(e.op, ast.Add):
                return z3.fpAdd(RNE, a, b)
            if isinstance(e.op, ast.Sub):
                return z3.fpSub(RNE, a, b)
            raise K.Unsupported('float operator ' + type(e.op).__name__)
        if isinstance(e, ast.UnaryOp) and isinstance(e.op, ast.USub):
            v = ev(e.operand)
            return z3.fpNeg(v) if z3.is_fp(v) else -v
        if isinstance(e, ast.Compare) and len(e.ops) == 1:
            a, b = ev(e.left), ev(e.comparators[0])
            if z3.is_fp(a) or z3.is_fp(b):
                raise K.Unsupported('branch on the float argument')
            return {ast.Eq: a == b, ast.NotEq: a != b, ast.Lt: a < b, ast.LtE: a <= b, ast.Gt: a > b, ast.GtE: a >= b}[type(e.ops[0])]
        if isinstance(e, ast.Call):
            fname = ast.unparse(e.func)
            args = []
            for a_ in e.args:
                try:
                    args.append(ev(a_))
                except K.Unsupported:
                    args.append(None)             # an argument that is not arithmetic (a constant of another module ...)
            if fname in ('math.trunc', 'int') and len(args) == 1:
                return z3.fpRoundToIntegral(RTZ, args[0]) if z3.is_fp(args[0]) else int(args[0])
            if fname == 'float' and len(args) == 1:
                return args[0]
            target = g.get(fname.split('.')[0])
            if any(z3.is_fp(a) for a in args):
                raise NotAFloatKernel(fname)          # the float is handed on (e.g. to the Decimal-based _round): no binary arithmetic here
            raise K.Unsupported('call ' + fname)
        raise K.Unsupported('expression ' + type(e).__name__)

    def run(stmts):
        for st in stmts:
            if isinstance(st, ast.Expr) and isinstance(st.value, ast.Constant):
                continue
            if isinstance(st, ast.If):
                r = run(st.body if ev(st.test) else st.orelse)
                if r is not None:
                    return r
            elif isinstance(st, ast.Assign) and len(st.targets) == 1 and isinstance(st.targets[0], ast.Name):
                env[st.targets[0].id] = ev(st.value)
            elif isinstance(st, ast.Return):
                return ev(st.value)
            else:
                raise K.Unsupported('statement ' + type(st).__name__)
        return None
    out = run(fdef.body)
    if out is None or not z3.is_fp(out):
        raise K.Unsupported('no float result')
    return x, out


def fp_trunc_ob(nmax, timeout):
    import time
    import traceback
    name = 'c16.TRUNC[decimals with n places are their own truncation, IEEE doubles]'

    def native_ok(k, n):
        x = k / 10 ** n
        got = nat(XM.TRUNC, x, n)
        return got == ('num', round(x, 9)), f'TRUNC({x!r}, {n}) = {got}, expected {x!r} (it has only {n} decimals)'

    def run(known=(), replay=None):
        t0 = time.perf_counter()
        res = {'name': name, 'kind': 'kt', 'family': 'c16.rounding', 'bounds': BOUNDS}
        if replay is not None:
            a = replay[0] if isinstance(replay, tuple) else replay
            ok, detail = native_ok(a['k'], a['n'])
            return {'ok': ok, 'detail': detail, 'case': f'TRUNC({a["k"]}/10^{a["n"]}, {a["n"]})'}
        queries, stime = 0, 0.0
        try:
            f = inspect.unwrap(XM.TRUNC)
            F64 = z3.Float64()
            decided = []
            undecided = []
            for n in list(range(2, nmax + 1)) + [1]:
                try:
                    x, out = fp_kernel(f, n)
                except NotAFloatKernel as e:
                    decided.append(f'n={n}: no binary float arithmetic (argument handed to {e})')
                    continue
                k = z3.FP('k', F64)
                s = z3.Solver()
                s.set('timeout', int(timeout * 1000))
                s.add(z3.fpRoundToIntegral(z3.RNE(), k) == k, z3.fpGEQ(k, z3.FPVal(-1e9, F64)), z3.fpLEQ(k, z3.FPVal(1e9, F64)))
                s.add(x == z3.fpDiv(z3.RNE(), k, z3.FPVal(float(10 ** n), F64)))          # the double denoted by the decimal k / 10^n
                s.add(z3.Not(z3.fpEQ(out, x)))
                q0 = time.perf_counter()
                r = s.check()
                queries += 1
                stime += time.perf_counter() - q0
                if r == z3.sat:
                    kv = s.model()[k]
                    kk = int(float(z3.simplify(z3.fpToReal(kv)).as_fraction()))
                    ok, detail = native_ok(kk, n)
                    res.update(cex=repr(({'k': kk, 'n': n},)), case=f'TRUNC({kk}/10^{n}, {n})', replay=detail)
                    if not ok:
                        res.update(status='VIOLATED', reproduced=True, detail=detail)
                    else:
                        res.update(status='SPURIOUS', reproduced=False, detail='solver model does not reproduce natively: ' + detail)
                    break
                if r != z3.unsat:
                    undecided.append(f'n={n}: solver answered {r}')
                    continue
                decided.append(f'n={n}: unsat')
            else:
                if undecided:
                    res.update(status='INCONCLUSIVE', detail='; '.join(undecided + decided))
                else:
                    res.update(status='CONFIRMED', detail='; '.join(decided))
        except K.Unsupported as e:
            res.update(status='INCONCLUSIVE', detail=f'float-kernel translator: unsupported construct: {e}')
        except Exception as e:
            res.update(status='HARNESS_ERROR', detail=f'{type(e).__name__}: {e}\n' + traceback.format_exc()[-1200:])
        # native witnesses as for every obligation
        if res.get('status') == 'CONFIRMED':
            for kk, n in ((125, 2), (5, 1), (-7, 1), (123456, 3)):
                ok, detail = native_ok(kk, n)
                if not ok:
                    res.update(status='VIOLATED', reproduced=True, detail='native witness fails: ' + detail, cex=repr(({'k': kk, 'n': n},)), replay=detail)
                    break
            res['witness_ok'] = 4
        res.update(paths=nmax, solver_queries=queries, solver_time_s=round(stime, 3), wall_s=round(time.perf_counter() - t0, 3), functions=['xlcalculator.xlfunctions.math.TRUNC'],
                   stubs=['z3 Float64 (IEEE-754 binary64, round-nearest-even) for * / + -, roundToIntegral(RTZ) for math.trunc'])
        return res
    BOUNDS = (f'TRUNC(x, n) for n in 1..{nmax} and every x that is the double nearest to a decimal k / 10^n, k any integer in -10^9..10^9: the result is x itself; the straight-line float '
              'arithmetic of the function is encoded bit-precisely (QF_FP); where the function hands its argument to the Decimal-based kernel there is nothing to encode and c16.TRUNC (exact decimal model) decides')
    return Ob(name, kind='kt', run=run, family='c16.rounding', bounds=BOUNDS, timeout=timeout, cost=20)


def kt_obs(tier):
    obs = []
    q, n = z3.Real('q'), z3.Int('n')
    qdom = [q >= -BIG, q <= BIG]
    ndom = [n >= -10, n <= 10]
    SAMP_Q = [(5, 2), (-5, 2), (1234567, 1000), (-1234567, 1000), (0, 1), (15, 100), (-15, 100), (999999, 1), (25, 10), (-25, 10), (1, 3), (12345678901234500, 1)]

    def samples2():
        out = []
        for num, den in SAMP_Q:
            if den in (3,):
                continue
            for k in (0, 1, 2, -1, -3, 10, -10):
                out.append({'q': (num, den), 'n': k})
        return out

    for kind in ('ROUND', 'ROUNDUP', 'ROUNDDOWN'):
        def mk(kind):
            def spec():
                f = inspect.unwrap(getattr(XM, kind))

                def encode():
                    leaves, it = K.explore(f, [q, n], [q >= -BIG2, q <= BIG2] + ndom, MM.MATH_MODELS)
                    return leaves, it, {'q': q, 'n': n}

                def bad(l):
                    if l.kind != 'return':
                        return True          # any exception (decimal.InvalidOperation on large magnitudes included) is a violation
                    k = leaf_n(l, n)
                    if k is None:
                        return True
                    return K.to_real(l.value if not isinstance(l.value, MM.MDecimal) else l.value.real) != ref_round(q, k, kind)

                def replay(a):
                    x = frac(a['q'])
                    got = nat(getattr(XM, kind), x, a['n'])
                    exp = ('num', round(py_ref_round(x, a['n'], kind), 9))
                    return got == exp, f'{kind}({x!r}, {a["n"]}) = {got}, decimal reference {exp}'
                return dict(encode=encode, bad=bad, replay=replay, norm=norm, native=lambda a: nat(getattr(XM, kind), frac(a['q']), a['n']), samples=samples2(), show=lambda a: f'{kind}({frac(a["q"])}, {a["n"]})',
                            models=['kt/models_math.py: Decimal(str(x)), localcontext().rounding, round(Decimal, n), float'])
            return spec
        direction = {'ROUND': 'half away from zero', 'ROUNDUP': 'away from zero', 'ROUNDDOWN': 'toward zero'}[kind]
        obs.append(kt_ob(f'c16.{kind}', mk(kind), family='c16.rounding', bounds=f'{kind}(q, n): every real q in -10^60..10^60 (exact decimal value), every digit count n in -10..10: decimal rounding {direction}, never an exception (decimal context precision modelled)', cost=30, timeout=300))

    def sp_int():
        f = inspect.unwrap(XM.INT)

        def encode():
            leaves, it = K.explore(f, [q], [q >= -BIG2, q <= BIG2], MM.MATH_MODELS)
            return leaves, it, {'q': q}

        def bad(l):
            return True if l.kind != 'return' else K.to_real(l.value) != z3.ToReal(z3.ToInt(q))

        def replay(a):
            x = frac(a['q'])
            got = nat(XM.INT, x)
            return got == ('num', float(math.floor(x))), f'INT({x!r}) = {got}, floor = {math.floor(x)}'
        return dict(encode=encode, bad=bad, replay=replay, norm=norm, native=lambda a: nat(XM.INT, frac(a['q'])), samples=[{'q': s} for s in SAMP_Q if s[1] != 3], show=lambda a: f'INT({frac(a["q"])})')
    obs.append(kt_ob('c16.INT', sp_int, family='c16.rounding', bounds='INT(q): every real q in -10^60..10^60: toward minus infinity (floor), never an exception', cost=10))

    def sp_trunc():
        f = inspect.unwrap(XM.TRUNC)

        def encode():
            leaves, it = K.explore(f, [q, n], qdom + ndom, MM.MATH_MODELS)
            return leaves, it, {'q': q, 'n': n}

        def bad(l):
            if l.kind != 'return':
                return True
            k = leaf_n(l, n)
            if k is None:
                return True
            # characterisation instead of a second floor expression: T = result * 10^k is an integer between 0 and q * 10^k, less than 1 away from it
            sc = z3.RealVal(10 ** k) if k >= 0 else z3.RealVal(1) / z3.RealVal(10 ** (-k))
            y = q * sc
            Tt = K.to_real(l.value) * sc
            charac = z3.And(z3.IsInt(Tt), z3.If(y >= 0, z3.And(Tt <= y, y < Tt + 1), z3.And(Tt >= y, y > Tt - 1)))
            # two equivalent statements of "is the truncation": the solver may refute whichever matches the shape of the code
            # (an arithmetic kernel -> the characterisation; the Decimal kernel -> the same term as the reference)
            return z3.And(z3.Not(charac), K.to_real(l.value if not isinstance(l.value, MM.MDecimal) else l.value.real) != ref_round(q, k, 'ROUNDDOWN'))

        def replay(a):
            x = frac(a['q'])
            got = nat(XM.TRUNC, x, a['n'])
            exp = ('num', round(py_ref_round(x, a['n'], 'TRUNC'), 9))
            return got == exp, f'TRUNC({x!r}, {a["n"]}) = {got}, decimal reference {exp}'
        # samples: only values whose binary products are exact (halves, integers), the fractional-float case is outside the claim
        smp = [{'q': s, 'n': k} for s in ((5, 2), (-5, 2), (0, 1), (999999, 1), (-7, 1), (12345, 1)) for k in (0, 1, -1, -3)]
        return dict(encode=encode, bad=bad, replay=replay, norm=norm, native=lambda a: nat(XM.TRUNC, frac(a['q']), a['n']), samples=smp, show=lambda a: f'TRUNC({frac(a["q"])}, {a["n"]})')
    obs.append(fp_trunc_ob(6 if tier == 'thorough' else 4, 60))
    obs.append(kt_ob('c16.TRUNC', sp_trunc, family='c16.rounding',
                     bounds='TRUNC(q, n): every real q, n in -10..10: toward zero at n digits, over exact real arithmetic (the binary products of fractional floats are outside the claim)', cost=30, timeout=300))

    def sp_even():
        f = inspect.unwrap(XM.EVEN)

        def encode():
            leaves, it = K.explore(f, [q], qdom, MM.MATH_MODELS)
            return leaves, it, {'q': q}

        def bad(l):
            if l.kind != 'return':
                return True
            a = z3.If(q < 0, -q, q)
            e = 2 * (-z3.ToInt(-(a / 2)))
            return K.to_real(l.value) != z3.ToReal(z3.If(q < 0, -e, e))

        def replay(a):
            x = frac(a['q'])
            e = math.ceil(abs(x) / 2) * 2
            got = nat(XM.EVEN, x)
            return got == ('num', float(-e if x < 0 else e)), f'EVEN({x!r}) = {got}'
        return dict(encode=encode, bad=bad, replay=replay, norm=norm, native=lambda a: nat(XM.EVEN, frac(a['q'])), samples=[{'q': s} for s in SAMP_Q if s[1] != 3 and abs(s[0]) <= BIG * s[1]], show=lambda a: f'EVEN({frac(a["q"])})')
    obs.append(kt_ob('c16.EVEN', sp_even, family='c16.rounding', bounds='EVEN(q): every real q in -10^15..10^15: next even integer away from zero', cost=10))

    def sp_floor():
        s_ = z3.Int('s')
        f = inspect.unwrap(XM.FLOOR)
        v = z3.Int('v')

        def encode():
            leaves, it = K.explore(f, [v, s_], [v >= -10 ** 9, v <= 10 ** 9, s_ >= -1000, s_ <= 1000], MM.MATH_MODELS)
            return leaves, it, {'v': v, 's': s_}

        def bad(l):
            # integer number and significance: multiple of the significance toward zero for same signs / toward minus infinity otherwise; 0 for 0; errors as documented
            if l.kind == 'raise':
                if l.value == 'NumExcelError':
                    return z3.Not(z3.And(s_ < 0, v > 0))
                if l.value == 'DivZeroExcelError':
                    return z3.Not(z3.And(s_ == 0, v != 0))
                return True
            ok_dom = z3.And(z3.Not(z3.And(s_ < 0, v > 0)), z3.Or(v == 0, s_ != 0))
            exp = z3.If(v == 0, z3.RealVal(0), z3.ToReal(s_) * z3.ToReal(z3.ToInt(z3.ToReal(v) / z3.ToReal(s_))))
            return z3.Or(z3.Not(ok_dom), K.to_real(l.value) != exp)

        def replay(a):
            got = nat(XM.FLOOR, a['v'], a['s'])
            if a['s'] < 0 < a['v']:
                exp = ('raise', 'NumExcelError')
            elif a['v'] == 0:
                exp = ('num', 0.0)
            elif a['s'] == 0:
                exp = ('raise', 'DivZeroExcelError')
            else:
                exp = ('num', float(a['s'] * math.floor(a['v'] / a['s'])))
            return got == exp, f'FLOOR({a["v"]}, {a["s"]}) = {got}, expected {exp}'
        smp = [{'v': a, 's': b} for a in (7, -7, 0, 10) for b in (2, -2, 3, 0, 5)]
        return dict(encode=encode, bad=bad, replay=replay, norm=norm, native=lambda a: nat(XM.FLOOR, a['v'], a['s']), samples=smp, show=lambda a: f'FLOOR({a["v"]}, {a["s"]})')
    obs.append(kt_ob('c16.FLOOR[integers]', sp_floor, family='c16.rounding',
                     bounds='FLOOR(v, s): every integer v in -10^9..10^9, significance s in -1000..1000: s * floor(v / s); #NUM! for v > 0 > s; #DIV/0! for s = 0 (v != 0)', cost=20, timeout=300))

    def sp_ceiling(scon):
        def spec():
            v = z3.Int('v')
            f = inspect.unwrap(XM.CEILING)

            def encode():
                leaves, it = K.explore(f, [v, scon], [v >= -10 ** 9, v <= 10 ** 9], MM.MATH_MODELS)
                return leaves, it, {'v': v}

            def bad(l):
                if l.kind == 'raise':
                    return True if l.value != 'NumExcelError' else z3.Not(z3.And(z3.BoolVal(scon < 0), v > 0))
                if scon == 0:
                    return K.to_real(l.value) != 0
                exp = z3.RealVal(scon) * z3.ToReal(-z3.ToInt(-(z3.ToReal(v) / z3.RealVal(scon))))
                return z3.Or(z3.And(z3.BoolVal(scon < 0), v > 0), K.to_real(l.value if not isinstance(l.value, MM.MDecimal) else l.value.real) != exp)

            def replay(a):
                got = nat(XM.CEILING, a['v'], scon)
                if scon < 0 < a['v']:
                    exp = ('raise', 'NumExcelError')
                elif scon == 0:
                    exp = ('num', 0.0)
                else:
                    exp = ('num', float(scon * math.ceil(a['v'] / scon)))
                return got == exp, f'CEILING({a["v"]}, {scon}) = {got}, expected {exp}'
            smp = [{'v': x} for x in (7, -7, 0, 10, -10, 1, 999999937)]
            return dict(encode=encode, bad=bad, replay=replay, norm=norm, native=lambda a: nat(XM.CEILING, a['v'], scon), samples=smp, show=lambda a: f'CEILING({a["v"]}, {scon})')
        return spec
    for scon in (1, 2, 5, 10, 360, -1, -2, -10, 0):
        obs.append(kt_ob(f'c16.CEILING[significance {scon}]', sp_ceiling(scon), family='c16.rounding',
                         bounds=f'CEILING(v, {scon}): every integer v in -10^9..10^9: the multiple of the significance at or above v/s in the direction of the significance (s * ceil(v/s)); '
                                '#NUM! for v > 0 > s; 0 for s = 0', cost=5, timeout=200))

    def sp_multiple(kind, scon):
        """CEILING / FLOOR of a decimal number to a decimal (also fractional) significance: the multiple of the significance, exactly."""
        from fractions import Fraction
        sq = Fraction(str(scon))

        def spec():
            f = inspect.unwrap(getattr(XM, kind))
            sv = z3.RealVal(str(sq))

            def encode():
                leaves, it = K.explore(f, [q, float(scon)], [q >= -10 ** 6, q <= 10 ** 6], MM.MATH_MODELS)
                return leaves, it, {'q': q}

            def bad(l):
                dom_err = z3.And(z3.BoolVal(sq < 0), q > 0)
                if l.kind == 'raise':
                    return True if l.value != 'NumExcelError' else z3.Not(dom_err)
                quo = q / sv
                mult = -z3.ToReal(z3.ToInt(-quo)) if kind == 'CEILING' else z3.ToReal(z3.ToInt(quo))
                return z3.Or(dom_err, K.to_real(l.value if not isinstance(l.value, MM.MDecimal) else l.value.real) != mult * sv)

            def py_ref(x):
                if sq < 0 < x:
                    return ('raise', 'NumExcelError')
                d = Fraction(decimal.Decimal(str(float(x)))) / sq
                m = math.ceil(d) if kind == 'CEILING' else math.floor(d)
                return ('num', round(float(m * sq), 9))

            def replay(a):
                x = frac(a['q'])
                got, exp = nat(getattr(XM, kind), x, float(scon)), py_ref(x)
                return got == exp, f'{kind}({x!r}, {scon}) = {got}, decimal reference {exp}'
            smp = [{'q': s_} for s_ in ((3, 10), (7, 10), (12, 5), (115, 100), (-3, 10), (-7, 10), (67, 10), (1, 4), (0, 1), (158, 100), (234, 1000), (5, 2), (-5, 2))]
            return dict(encode=encode, bad=bad, replay=replay, norm=norm, native=lambda a: nat(getattr(XM, kind), frac(a['q']), float(scon)), samples=smp,
                        show=lambda a: f'{kind}({frac(a["q"])}, {scon})', models=['kt/models_math.py: Decimal(str(float(x))), Decimal / Decimal, to_integral_value, Decimal * Decimal, float'])
        return spec
    for kind in ('CEILING', 'FLOOR'):
        for scon in (0.1, 0.05, 0.25, 2.5, 0.2, -0.1, -2.5):
            direction = 'at or above' if kind == 'CEILING' else 'at or below'
            obs.append(kt_ob(f'c16.{kind}[decimal number, significance {scon}]', sp_multiple(kind, scon), family='c16.rounding',
                             bounds=f'{kind}(q, {scon}): every real q in -10^6..10^6 (exact decimal value): the multiple of the significance {direction} q/s (s * {"ceil" if kind == "CEILING" else "floor"}(q/s)), '
                                    'exactly; #NUM! for q > 0 > s; doubles such as 0.3, 0.7, 2.4, 1.15 replayed natively against the decimal reference', cost=5, timeout=200))

    def sp_mod(bcon):
        def spec():
            a_, b_ = z3.Int('a'), z3.Int('b')
            f = inspect.unwrap(XM.MOD)

            def encode():
                leaves, it = K.explore(f, [a_, bcon], [a_ >= -10 ** 12, a_ <= 10 ** 12, b_ == bcon], MM.MATH_MODELS)
                return leaves, it, {'a': a_, 'b': b_}

            def bad(l):
                if l.kind == 'raise':
                    return True if l.value != 'DivZeroExcelError' else z3.BoolVal(bcon != 0)
                if bcon == 0:
                    return True
                r = l.value
                k = (a_ - r) / bcon
                inrange = z3.And(r >= 0, r < bcon) if bcon > 0 else z3.And(r <= 0, r > bcon)
                return z3.Not(z3.And(inrange, k * bcon + r == a_))

            def replay(a):
                got = nat(XM.MOD, a['a'], bcon)
                exp = ('raise', 'DivZeroExcelError') if bcon == 0 else ('num', float(a['a'] % bcon))
                return got == exp, f'MOD({a["a"]}, {bcon}) = {got}, expected {exp}'
            smp = [{'a': x, 'b': bcon} for x in (7, -7, 0, 10 ** 9 + 1)]
            return dict(encode=encode, bad=bad, replay=replay, norm=norm, native=lambda a: nat(XM.MOD, a['a'], bcon), samples=smp, show=lambda a: f'MOD({a["a"]}, {bcon})')
        return spec
    for bcon in (1, -1, 2, -2, 3, -3, 7, -7, 10, -360, 0):
        obs.append(kt_ob(f'c16.MOD[divisor {bcon}]', sp_mod(bcon), family='c16.rounding',
                         bounds=f'MOD(a, {bcon}): every integer a in -10^12..10^12: a = k*{bcon} + r with r of the sign of the divisor and |r| < |divisor|' + ('; #DIV/0!' if bcon == 0 else ''), cost=3))
    return obs


# ------------------------------------------------------------------------------------------------ XH part: contract stubs (P3)
STUBBED = [False]
RES = [0.0]          # the arbitrary finite library result of the current path (a symbolic float of the harness)
CALLS = []


class LibStub:
    """Stand-in for `math` / `numpy` inside xlcalculator.xlfunctions.math while tracing."""

    def __init__(self, real, kind):
        self._real, self._kind = real, kind
        self.pi = real.pi
        if hasattr(real, 'e'):
            self.e = real.e

    def _dom(self, name, *a):
        x = a[0]
        if self._kind == 'math':
            if name == 'log':
                if x <= 0 or (len(a) > 1 and (a[1] <= 0)):
                    raise ValueError('math domain error')
                if len(a) > 1 and a[1] == 1:
                    raise ZeroDivisionError('float division by zero')
            if name == 'sqrt' and x < 0:
                raise ValueError('math domain error')
            if name == 'factorial' and x < 0:
                raise ValueError('factorial() not defined for negative values')
            return RES[0]
        # numpy: NaN / inf instead of exceptions
        if name in ('arccos', 'arcsin') and (x < -1 or x > 1):
            return float('nan')
        if name == 'arccosh' and x < 1:
            return float('nan')
        if name == 'log10':
            if x < 0:
                return float('nan')
            if x == 0:
                return float('-inf')
        if name in ('exp', 'cosh', 'sinh') and (x > 709 or (name != 'exp' and x < -709)):
            return float('inf')
        if name == 'arctanh' and (x <= -1 or x >= 1):
            return float('nan')
        return RES[0]

    def __getattr__(self, name):
        real = getattr(self._real, name)
        if name in ('isinf', 'isnan', 'ceil', 'floor', 'trunc', 'power', 'random', 'sign'):
            if name == 'isinf':
                return lambda v: v == float('inf') or v == float('-inf')
            if name == 'isnan':
                return lambda v: v != v
            if name == 'sign':
                return lambda v: (1.0 if v > 0 else (-1.0 if v < 0 else 0.0))
            return real

        def f(*a):
            CALLS.append((self._kind + '.' + name,) + tuple(a))
            return self._dom(name, *a)
        return f


class lib_stubs:
    def __enter__(self):
        from vf import xh
        self.fs = xh.fmt_stub()
        self.fs.__enter__()
        self.old = (XM.math, XM.np)
        XM.math = LibStub(self.old[0], 'math')
        XM.np = LibStub(self.old[1], 'np')
        STUBBED[0] = True
        return self

    def __exit__(self, *a):
        XM.math, XM.np = self.old
        STUBBED[0] = False
        self.fs.__exit__(*a)


REAL = {'np.arccos': math.acos, 'np.arcsin': math.asin, 'np.arccosh': math.acosh, 'np.arcsinh': math.asinh, 'np.arctan': math.atan, 'np.cos': math.cos, 'np.cosh': math.cosh,
        'np.degrees': math.degrees, 'np.exp': math.exp, 'math.log': math.log, 'np.log10': math.log10, 'np.radians': math.radians, 'np.sin': math.sin, 'math.sqrt': math.sqrt, 'np.tan': math.tan}


def close(a, b):
    return abs(a - b) <= 1e-9 * (1 + abs(b))


def finite_or_error(r):
    if isinstance(r, XE.ExcelError):
        return True
    v = val(r)
    if isinstance(v, bool) or not isinstance(v, (int, float)):
        return False
    return v == v and v != float('inf') and v != float('-inf')


ONE_ARG = ['ABS', 'ACOS', 'ACOSH', 'ASIN', 'ASINH', 'ATAN', 'COS', 'COSH', 'DEGREES', 'EXP', 'LN', 'LOG10', 'RADIANS', 'SIGN', 'SIN', 'SQRT', 'SQRTPI', 'TAN']
TWO_ARG = ['ATAN2', 'LOG', 'MOD', 'POWER']
EXPECT_CALL = {'ACOS': 'np.arccos', 'ASIN': 'np.arcsin', 'ACOSH': 'np.arccosh', 'ASINH': 'np.arcsinh', 'ATAN': 'np.arctan', 'COS': 'np.cos', 'COSH': 'np.cosh', 'DEGREES': 'np.degrees',
               'EXP': 'np.exp', 'LN': 'math.log', 'LOG10': 'np.log10', 'RADIANS': 'np.radians', 'SIN': 'np.sin', 'SQRT': 'math.sqrt', 'TAN': 'np.tan'}


def xh_obs(tier):
    obs = []
    for name in ONE_ARG:
        def mk(name):
            f = F[name]

            def h(x: float, u: float) -> bool:
                RES[0] = u
                del CALLS[:]
                r = f(cast_native(x))          # as the evaluator hands it over (an ExcelType object)
                if not finite_or_error(r):
                    return False
                exp = EXPECT_CALL.get(name)
                if exp is not None and not isinstance(r, XE.ExcelError):
                    if not STUBBED[0]:
                        return close(val(r), REAL[exp](x))      # native replay: the real library
                    # delegation: the library function of the statement, applied to the argument itself
                    return len(CALLS) == 1 and CALLS[0][0] == exp and CALLS[0][1] == x and val(r) == u
                return True
            return h
        big = name in ('FACT', 'FACTDOUBLE')
        obs.append(Ob(f'c16.domain[{name}]', mk(name), pre=(lambda x, u: -1e6 <= u <= 1e6 and (-3 <= x <= 12 if big else -1e9 <= x <= 1e9)), witness=[(0.5, 1.0), (2.0, 1.0), (0.0, 1.0), (-1.0, 1.0)],
                      timeout=120, cost=5, family='c16.domain', ctx=lib_stubs, stubs=['P3 library contract stubs for math / numpy inside xlfunctions.math'],
                      bounds=f'{name}(x): every real x in ' + ('-3..12' if big else '-10^9..10^9') + ' (floats as reals); the library result is an arbitrary finite real u: the result is a finite number or an Excel error, '
                             'never NaN / infinity / a Python exception' + (f'; delegates to {EXPECT_CALL[name]}(x)' if name in EXPECT_CALL else ''),
                      show=lambda x, u, name=name: f'{name}({x!r})'))

    def h_atan2(x: float, y: float, u: float) -> bool:
        RES[0] = u
        del CALLS[:]
        r = F['ATAN2'](x, y)
        if isinstance(r, XE.ExcelError):
            return x == 0 and y == 0
        if not STUBBED[0]:
            return close(val(r), math.atan2(y, x))
        return len(CALLS) == 1 and CALLS[0] == ('np.arctan2', y, x) and val(r) == u
    obs.append(Ob('c16.delegation[ATAN2]', h_atan2, pre=lambda x, y, u: -1e6 <= u <= 1e6 and -1e9 <= x <= 1e9 and -1e9 <= y <= 1e9, witness=[(1.0, 0.0, 0.3), (0.0, 1.0, 0.3), (0.0, 0.0, 0.3)], timeout=120, cost=5,
                  family='c16.delegation', ctx=lib_stubs, stubs=['P3'], bounds='ATAN2(x, y) = atan2(y, x): the library is called with (y, x); ATAN2(0, 0) is an error value', show=lambda x, y, u: f'ATAN2({x!r}, {y!r})'))

    def h_log(x: float, b: float, u: float) -> bool:
        RES[0] = u
        del CALLS[:]
        r = F['LOG'](cast_native(x), cast_native(b))
        if not finite_or_error(r):
            return False
        if isinstance(r, XE.ExcelError):
            return x <= 0 or b <= 0 or b == 1
        if not STUBBED[0]:
            return x > 0 and b > 0 and b != 1 and close(val(r), math.log(x, b))
        return x > 0 and b > 0 and b != 1 and len(CALLS) == 1 and CALLS[0] == ('math.log', x, b) and val(r) == u
    obs.append(Ob('c16.delegation[LOG]', h_log, pre=lambda x, b, u: -1e6 <= u <= 1e6 and -1e9 <= x <= 1e9 and -1e3 <= b <= 1e3, witness=[(8.0, 2.0, 3.0), (0.0, 2.0, 1.0), (5.0, 1.0, 1.0), (5.0, -2.0, 1.0)], timeout=120, cost=5,
                  family='c16.delegation', ctx=lib_stubs, stubs=['P3'], bounds='LOG(x, b) = log(x, b) for x > 0, b > 0, b != 1; an error value otherwise', show=lambda x, b, u: f'LOG({x!r}, {b!r})'))

    def h_log_default(x: float, u: float) -> bool:
        RES[0] = u
        del CALLS[:]
        r = F['LOG'](cast_native(x))
        if isinstance(r, XE.ExcelError):
            return x <= 0
        if not STUBBED[0]:
            return x > 0 and close(val(r), math.log10(x))
        return x > 0 and len(CALLS) == 1 and CALLS[0][0] == 'math.log' and CALLS[0][1] == x and CALLS[0][2] == 10 and val(r) == u
    obs.append(Ob('c16.delegation[LOG default base]', h_log_default, pre=lambda x, u: -1e6 <= u <= 1e6 and -1e9 <= x <= 1e9, witness=[(100.0, 2.0), (0.0, 1.0)], timeout=120, cost=5,
                  family='c16.delegation', ctx=lib_stubs, stubs=['P3'], bounds='LOG(x) = log(x, 10)'))

    def h_mod(a: float, b: float) -> bool:
        r = F['MOD'](a, b)
        if b == 0:
            return is_err(r, XE.DivZeroExcelError)
        v = val(r)
        return isinstance(r, T.Number) and ((0 <= v < b) if b > 0 else (b < v <= 0))
    obs.append(Ob('c16.domain[MOD reals]', h_mod, pre=lambda a, b: -1e6 <= a <= 1e6 and -1e3 <= b <= 1e3, witness=[(5.5, 2.0), (-5.5, 2.0), (5.5, -2.0), (1.0, 0.0)], timeout=120, cost=5, family='c16.domain',
                  bounds='MOD(a, b) over reals: result has the sign of the divisor and |r| < |b|; #DIV/0! for b = 0 (floats as reals)', show=lambda a, b: f'MOD({a!r}, {b!r})'))

    def h_power(x: int, e: int) -> bool:
        r = F['POWER'](x, e)
        if x == 0 and e < 0:
            return is_err(r, XE.DivZeroExcelError)
        return finite_or_error(r) and (isinstance(r, XE.ExcelError) or close(val(r) * (x ** -e if e < 0 else 1), (1 if e < 0 else x ** e)))
    obs.append(Ob('c16.domain[POWER ints]', h_power, pre=lambda x, e: -50 <= x <= 50 and -3 <= e <= 4, witness=[(2, 3), (0, -1), (-2, -2), (0, 0)], timeout=200, cost=20, family='c16.domain',
                  bounds='POWER(x, e) and ^ for integer x in -50..50, e in -3..4: exact value; 0 to a negative power is #DIV/0!', show=lambda x, e: f'POWER({x}, {e})'))

    def h_fact(n: int) -> bool:
        n = concretize(n, -3, 12)
        r, r2 = F['FACT'](n), F['FACTDOUBLE'](n)
        if n < 0:
            return is_err(r, XE.NumExcelError) and is_err(r2, XE.NumExcelError)
        f2 = 1
        k = n
        while k > 1:
            f2 *= k
            k -= 2
        return val(r) == math.factorial(n) and val(r2) == f2
    obs.append(Ob('c16.domain[FACT FACTDOUBLE]', h_fact, pre=lambda n: -3 <= n <= 12, witness=[(5,), (-1,), (0,)], timeout=200, cost=10, family='c16.domain',
                  bounds='FACT(n), FACTDOUBLE(n) for n in -3..12 (forked): exact values; negative arguments give #NUM!'))

    def h_pi(k: int) -> bool:
        return val(F['PI']()) == math.pi and val(F['SQRTPI'](0)) == 0
    obs.append(Ob('c16.PI', h_pi, pre=lambda k: k == 0, witness=[(0,)], timeout=30, cost=1, family='c16.delegation', bounds='PI() is the double nearest to pi'))
    return obs


def build(tier, seed):
    return kt_obs(tier) + xh_obs(tier)
