"""C15 — criteria counting and lookups agree with a linear scan of the range."""
from typing import Optional, Union

import pandas

from vf.ob import Ob, TOTAL
from props.common import *  # noqa
from xlcalculator.xlfunctions import statistics as ST, lookup as LK

EXPLANATION = ('COUNTIF/COUNTIFS, MATCH (exact and approximate), VLOOKUP and CHOOSE are evaluated through compiled formulas (criterion text built with '
               '"op"&B1 and as literals) over columns/tables with symbolic cells (ints, short texts), symbolic criterion operands (incl. negative), lookup '
               'keys, column and CHOOSE indices; z3 decides equality with linear scans written in the harness.')
ASSUMPTIONS = ['P1, P2, P2b, P6', 'columns of at most 4 cells; texts of length <= 1..2 over a small alphabet where a criterion/key is text',
               'SUMIF/SUMIFS need pandas.DataFrame.applymap, which the installed pandas no longer has; they are excluded by the statement itself (checked at run time)']
TRUSTED = ['linear-scan oracles in props/c15.py']

HAVE_APPLYMAP = hasattr(pandas.DataFrame, 'applymap')
CELL = Union[int, str]
OPS = ['', '=', '<>', '<', '<=', '>', '>=']


def small_text(v, n=2):
    if not isinstance(v, str):
        return True
    if not (1 <= len(v) <= n):
        return False
    for ch in v:
        o = ord(ch)
        if not (o == 97 or o == 98 or o == 65 or o == 122):   # a b A z
            return False
    return True


def crit_num(op, cell, k):
    """Does a cell match the criterion <op><number k>?"""
    isnum = isinstance(cell, int) and not isinstance(cell, bool)
    if op in ('', '='):
        return isnum and cell == k
    if op == '<>':
        return not (isnum and cell == k)
    if not isnum:
        return False            # an ordering criterion only matches cells of its operand's type
    return {'<': cell < k, '<=': cell <= k, '>': cell > k, '>=': cell >= k}[op]


def crit_text(op, cell, t):
    istext = isinstance(cell, str)
    u = t.upper()
    if op in ('', '='):
        return istext and cell.upper() == u
    if op == '<>':
        return not (istext and cell.upper() == u)
    if not istext:
        return False
    c = cell.upper()
    return {'<': c < u, '<=': c <= u, '>': c > u, '>=': c >= u}[op]


def nval(r):
    if isinstance(r, T.Number):
        return r.value
    if isinstance(r, (int, float)) and not isinstance(r, bool):
        return r
    return None


def build(tier, seed):
    thorough = tier == 'thorough'
    TO = 900 if thorough else 400
    obs = []

    def add(name, fn, pre, wit, bounds, cost=10, show=None, known=None, timeout=None):
        obs.append(Ob(f'c15.{name}', fn, pre=pre, witness=wit, timeout=timeout or TO, cost=cost, family='c15.' + name.split('[')[0], bounds=bounds, show=show, known=known))

    # Cells: three symbolic ints, one of which may be replaced by a text from TEXTS (position and content forked).
    # Criterion operands are forked over a small range (incl. negative numbers): the criterion text is then concrete per path
    # (the regex of the criteria parser on a symbolic string does not finish), while the cell values stay solver-quantified.
    TEXTS = ['a', 'A', 'b', 'z']
    KS = list(range(-3, 4))

    def column(a, b, c, tp, tc):
        vs = [a, b, c]
        tp = concretize(tp, -1, 2)
        if tp >= 0:
            vs[tp] = TEXTS[concretize(tc, 0, len(TEXTS) - 1)]
        return vs

    cells = {'A1': 1, 'A2': 2, 'A3': 3, 'B1': 0}
    for i, op in enumerate(OPS):
        cells[f'Z{i + 1}'] = f'=COUNTIF(A1:A3,"{op}"&B1)'
    cells['Y1'] = '=COUNTIF(A1:A3,B1)'
    cells['Y2'] = '=COUNTIF(A1:A3,">-1")'
    cells['Y3'] = '=COUNTIF(A1:A3,"<=-2")'
    cells['Y4'] = '=COUNTIF(A1:A3,"<>-5")'
    MC = mk(cells)
    col_pre = lambda a, b, c, tp, tc, k: -1 <= tp <= 2 and 0 <= tc < len(TEXTS)   # noqa
    for i, op in enumerate(OPS):
        def mk_h(i, op):
            def h(a: int, b: int, c: int, tp: int, tc: int, k: int) -> bool:
                k = concretize(k, KS[0], KS[-1])
                vs = column(a, b, c, tp, tc)
                for j, v in enumerate(vs):
                    setv(MC, f'Sheet1!A{j + 1}', v)
                setv(MC, 'Sheet1!B1', k)
                ev = Evaluator(MC)
                exp = sum(1 for v in vs if crit_num(op, v, k))
                if nval(ev.evaluate(f'Sheet1!Z{i + 1}')) != exp:
                    return False
                if op == '':
                    return nval(ev.evaluate('Sheet1!Y1')) == exp
                return True
            return h
        add(f'COUNTIF[number {op or "plain"}]', mk_h(i, op), lambda a, b, c, tp, tc, k: col_pre(a, b, c, tp, tc, k) and KS[0] <= k <= KS[-1],
            [(1, 2, 3, -1, 0, 2), (-1, 0, 5, 1, 0, -1), (-3, -2, -1, 2, 3, -2)],
            f'column of 3 cells: ints (unbounded) with a text from {TEXTS} at any one position or none (forked); criterion "{op}"&B1 with B1 in {KS[0]}..{KS[-1]} (forked; negative included)', 30,
            lambda a, b, c, tp, tc, k, op=op: f'COUNTIF({(a, b, c)!r} text@{tp}={TEXTS[tc % 4]!r}, "{op}{k}")')

    def h_lit(a: int, b: int, c: int, tp: int, tc: int) -> bool:
        vs = column(a, b, c, tp, tc)
        for j, v in enumerate(vs):
            setv(MC, f'Sheet1!A{j + 1}', v)
        ev = Evaluator(MC)
        return (nval(ev.evaluate('Sheet1!Y2')) == sum(1 for v in vs if crit_num('>', v, -1)) and nval(ev.evaluate('Sheet1!Y3')) == sum(1 for v in vs if crit_num('<=', v, -2))
                and nval(ev.evaluate('Sheet1!Y4')) == sum(1 for v in vs if crit_num('<>', v, -5)))
    add('COUNTIF[negative literals]', h_lit, lambda a, b, c, tp, tc: -1 <= tp <= 2 and 0 <= tc < len(TEXTS), [(0, -1, -2, -1, 0), (4, -5, 7, 0, 1)],
        'criteria ">-1", "<=-2", "<>-5" as literals; cells ints with an optional text cell', 20, lambda a, b, c, tp, tc: f'{(a, b, c)!r} text@{tp}')

    # ---------------- COUNTIF with text operands (case-insensitive; ordering only among texts)
    tcells = {'A1': 'a', 'A2': 'b', 'A3': 'c', 'B1': 'a'}
    for i, op in enumerate(OPS):
        tcells[f'Z{i + 1}'] = f'=COUNTIF(A1:A3,"{op}"&B1)'
    MT = mk(tcells)
    for i, op in enumerate(OPS):
        def mk_ht(i, op):
            def h(a: int, t1: int, t2: int, t: int, swap: bool) -> bool:
                # two text cells (contents forked over TEXTS) and one symbolic int, in two arrangements
                x1, x2 = TEXTS[concretize(t1, 0, 3)], TEXTS[concretize(t2, 0, 3)]
                tt = TEXTS[concretize(t, 0, 3)]
                vs = (x1, a, x2) if swap else (a, x1, x2)
                for j, v in enumerate(vs):
                    setv(MT, f'Sheet1!A{j + 1}', v)
                setv(MT, 'Sheet1!B1', tt)
                ev = Evaluator(MT)
                return nval(ev.evaluate(f'Sheet1!Z{i + 1}')) == sum(1 for v in vs if crit_text(op, v, tt))
            return h
        add(f'COUNTIF[text {op or "plain"}]', mk_ht(i, op), lambda a, t1, t2, t, swap: 0 <= t1 <= 3 and 0 <= t2 <= 3 and 0 <= t <= 3,
            [(1, 0, 1, 0, False), (5, 3, 2, 2, True)],
            f"column of 3 cells: two texts over {TEXTS} (forked) and one int (unbounded); criterion \"{op}\"&B1 with B1 over {TEXTS}: case-insensitive, ordering criteria match text cells only", 30,
            lambda a, t1, t2, t, swap, op=op: f'COUNTIF(int {a}, {TEXTS[t1 % 4]!r}, {TEXTS[t2 % 4]!r}; "{op}{TEXTS[t % 4]}")')

    # ---------------- COUNTIFS: two criteria, conjunctive position by position
    MS = mk({'A1': 1, 'A2': 2, 'B1': 1, 'B2': 2, 'C1': 0, 'C2': 0, 'Z1': '=COUNTIFS(A1:A2,">"&C1,B1:B2,"<="&C2)', 'Z2': '=COUNTIFS(A1:A2,C1,B1:B2,"<>"&C2)',
             'Z3': '=COUNTIFS(A1:A2,">="&C1)', 'D1': 1, 'D2': 2, 'C3': 0, 'E1': 1, 'E2': 1,
             'Z4': '=COUNTIFS(A1:A2,">"&C1,B1:B2,"<="&C2,D1:D2,"<>"&C3)', 'Z5': '=COUNTIFS(A1:A2,">"&C1,B1:B2,"<="&C2,D1:D2,"<>"&C3,E1:E2,C1)'})

    def mk_ifs(z):
        def h_ifs(a1: int, a2: int, b1: int, b2: int, k1: int, k2: int) -> bool:
            k1, k2 = concretize(k1, -1, 1), concretize(k2, -1, 1)
            for nm, v in (('A1', a1), ('A2', a2), ('B1', b1), ('B2', b2), ('C1', k1), ('C2', k2)):
                setv(MS, 'Sheet1!' + nm, v)
            ev = Evaluator(MS)
            rows = ((a1, b1), (a2, b2))
            if z == 1:
                return nval(ev.evaluate('Sheet1!Z1')) == sum(1 for a, b in rows if a > k1 and b <= k2)
            if z == 2:
                return nval(ev.evaluate('Sheet1!Z2')) == sum(1 for a, b in rows if a == k1 and b != k2)
            return nval(ev.evaluate('Sheet1!Z3')) == sum(1 for a, b in rows if a >= k1)
        return h_ifs
    for z, desc in ((1, '(">"&k1, "<="&k2)'), (2, '(k1, "<>"&k2)'), (3, 'single criterion ">="&k1')):
        add(f'COUNTIFS[{desc}]', mk_ifs(z), lambda a1, a2, b1, b2, k1, k2: -1 <= k1 <= 1 and -1 <= k2 <= 1, [(1, 2, 2, 1, 1, 1), (0, 0, 0, 0, -1, 0)],
            f'two ranges of 2 int cells (unbounded), criteria {desc} combined position by position; k1, k2 in -1..1 (forked)', 60,
            lambda *a: f'A={a[:2]!r} B={a[2:4]!r} k1={a[4]} k2={a[5]}')

    def mk_ifs3(ks, four):
        k1, k2, k3 = ks

        def h3(a1: int, a2: int, b1: int, b2: int, d1: int, d2: int) -> bool:
            for nm, v in (('A1', a1), ('A2', a2), ('B1', b1), ('B2', b2), ('D1', d1), ('D2', d2), ('E1', 1), ('E2', 1), ('C1', k1), ('C2', k2), ('C3', k3)):
                setv(MS, 'Sheet1!' + nm, v)
            rows = ((a1, b1, d1), (a2, b2, d2))
            return nval(Evaluator(MS).evaluate('Sheet1!Z4')) == sum(1 for a, b, d in rows if a > k1 and b <= k2 and d != k3)

        def h4(a1: int, b1: int, d1: int, e1: int, e2: int) -> bool:
            for nm, v in (('A1', a1), ('A2', k1 + 1), ('B1', b1), ('B2', k2), ('D1', d1), ('D2', k3 + 1), ('E1', e1), ('E2', e2), ('C1', k1), ('C2', k2), ('C3', k3)):
                setv(MS, 'Sheet1!' + nm, v)
            rows = ((a1, b1, d1, e1), (k1 + 1, k2, k3 + 1, e2))
            return nval(Evaluator(MS).evaluate('Sheet1!Z5')) == sum(1 for a, b, d, e in rows if a > k1 and b <= k2 and d != k3 and e == k1)
        return h4 if four else h3
    for ks in ((0, 1, 0), (1, -1, 1)):
        add(f'COUNTIFS[three pairs, k={ks}]', mk_ifs3(ks, False), None, [(1, 2, 2, 1, 5, 0), (0, 0, 0, 0, 0, 0), (5, 5, -3, -3, 7, 7)],
            f'three ranges of 2 int cells (unbounded) with the criteria ">"&{ks[0]}, "<="&{ks[1]}, "<>"&{ks[2]} combined position by position', 60, lambda *a: f'A={a[:2]!r} B={a[2:4]!r} D={a[4:6]!r}')
        add(f'COUNTIFS[four pairs, k={ks}]', mk_ifs3(ks, True), None, [(1, 2, 5, 0, 1), (0, 0, 0, 0, 0), (5, -3, 7, ks[0], ks[0])],
            f'four ranges of 2 cells (first row and the last column unbounded ints, second row satisfying the first three criteria) with the criteria ">"&{ks[0]}, "<="&{ks[1]}, "<>"&{ks[2]}, {ks[0]}', 60,
            lambda *a: f'row1={a[:4]!r} E2={a[4]}')

    # ---------------- MATCH exact / approximate
    MM = mk({'A1': 1, 'A2': 2, 'A3': 3, 'A4': 4, 'B1': 0, 'Z1': '=MATCH(B1,A1:A4,0)', 'Z2': '=MATCH(B1,A1:A4,1)', 'Z3': '=MATCH(B1,A1:A4)', 'Z4': '=MATCH(B1,A1:A3,0)'})

    def h_match0(a: int, b: int, c: int, d: int, k: int, tp: int, tc: int, kt: int) -> bool:
        vs = [a, b, c, d]
        tp = concretize(tp, -1, 3)
        if tp >= 0:
            vs[tp] = TEXTS[concretize(tc, 0, 3)]
        kt = concretize(kt, -1, 3)
        key = k if kt < 0 else TEXTS[kt]
        for j, v in enumerate(vs):
            setv(MM, f'Sheet1!A{j + 1}', v)
        setv(MM, 'Sheet1!B1', key)
        r = Evaluator(MM).evaluate('Sheet1!Z1')
        exp = None
        for i, v in enumerate(vs):
            if isinstance(v, str) == isinstance(key, str) and (v == key if isinstance(v, int) else v.upper() == key.upper()):
                exp = i + 1
                break
        if exp is None:
            return is_err(r, XE.NaExcelError)
        return nval(r) == exp
    add('MATCH[exact]', h_match0, lambda a, b, c, d, k, tp, tc, kt: -1 <= tp <= 3 and 0 <= tc <= 3 and -1 <= kt <= 3, [(5, 7, 5, 9, 5, -1, 0, -1), (1, 3, 2, 4, 0, 2, 1, 0), (1, 2, 3, 4, 9, -1, 0, -1)],
        f"column of 4 cells: ints (unbounded) with a text from {TEXTS} at any one position or none; key: any int or a text from {TEXTS} (forked): 1-based position of the first equal cell (text case-insensitive), #N/A when absent", 80,
        lambda a, b, c, d, k, tp, tc, kt: f'MATCH(key={k if kt < 0 else TEXTS[kt % 4]!r}, {(a, b, c, d)!r} text@{tp})')

    def h_match1(a: int, b: int, c: int, d: int, k: int) -> bool:
        vs = (a, b, c, d)
        for j, v in enumerate(vs):
            setv(MM, f'Sheet1!A{j + 1}', v)
        setv(MM, 'Sheet1!B1', k)
        ev = Evaluator(MM)
        r, r3 = ev.evaluate('Sheet1!Z2'), ev.evaluate('Sheet1!Z3')
        exp = 0
        for i, v in enumerate(vs):
            if v <= k:
                exp = i + 1
        if exp == 0:
            return is_err(r, XE.NaExcelError) and is_err(r3, XE.NaExcelError)
        return nval(r) == exp and nval(r3) == exp
    add('MATCH[approximate]', h_match1, lambda a, b, c, d, k: a < b < c < d, [(1, 3, 5, 7, 4), (1, 3, 5, 7, 0), (1, 3, 5, 7, 9), (1, 3, 5, 7, 5)],
        'strictly ascending column of 4 ints, key any int: last position whose value does not exceed the key (also beyond the last element), #N/A when the key is below the first; match_type 1 and omitted', 30,
        lambda a, b, c, d, k: f'MATCH({k}, {(a, b, c, d)!r}, 1)')

    # ---------------- VLOOKUP exact over a 3-column table, every column index incl. out of range, duplicate keys
    MV = mk({'A1': 1, 'A2': 2, 'A3': 3, 'B1': 10, 'B2': 20, 'B3': 30, 'C1': 100, 'C2': 200, 'C3': 300, 'D1': 0, 'D2': 1,
             'Z1': '=VLOOKUP(D1,A1:C3,D2,FALSE)', 'Z2': '=VLOOKUP(D1,A1:C3,2,FALSE)', 'Z3': '=VLOOKUP(D1,A1:C3,3,FALSE)', 'Z4': '=VLOOKUP(D1,A1:B3,1,FALSE)'})

    def h_vl(k1: int, k2: int, k3: int, b1: int, b2: int, b3: int, c1: int, c2: int, c3: int, key: int, col: int) -> bool:
        col = concretize(col, 0, 4)
        rows = ((k1, b1, c1), (k2, b2, c2), (k3, b3, c3))
        for i, (k, b, c) in enumerate(rows):
            setv(MV, f'Sheet1!A{i + 1}', k)
            setv(MV, f'Sheet1!B{i + 1}', b)
            setv(MV, f'Sheet1!C{i + 1}', c)
        setv(MV, 'Sheet1!D1', key)
        setv(MV, 'Sheet1!D2', col)
        ev = Evaluator(MV)
        r = ev.evaluate('Sheet1!Z1')
        hit = None
        for row in rows:
            if row[0] == key:
                hit = row
                break
        if col < 1 or col > 3:
            if not is_err(r):
                return False
        elif hit is None:
            if not is_err(r, XE.NaExcelError):
                return False
        elif nval(r) != hit[col - 1]:
            return False
        r2, r3, r4 = ev.evaluate('Sheet1!Z2'), ev.evaluate('Sheet1!Z3'), ev.evaluate('Sheet1!Z4')
        if hit is None:
            return is_err(r2, XE.NaExcelError) and is_err(r3, XE.NaExcelError) and is_err(r4, XE.NaExcelError)
        return nval(r2) == hit[1] and nval(r3) == hit[2] and nval(r4) == hit[0]
    add('VLOOKUP[exact]', h_vl, lambda k1, k2, k3, b1, b2, b3, c1, c2, c3, key, col: 0 <= col <= 4 and all(0 <= k <= 3 for k in (k1, k2, k3, key)),
        [(1, 2, 3, 10, 20, 30, 100, 200, 300, 2, 3), (1, 1, 2, 10, 20, 30, 7, 8, 9, 1, 2), (1, 2, 3, 0, 0, 0, 0, 0, 0, 0, 1), (1, 2, 3, 0, 0, 0, 0, 0, 0, 2, 4)],
        '3x3 table: keys in 0..3 (duplicates included), payload cells all ints; lookup key 0..3 present at any position or absent; column index 0..4 (forked): value in the '
        'requested column of the FIRST matching row, #N/A when absent, an error value for a column outside the table', 120,
        lambda *a: f'keys={a[:3]!r} B={a[3:6]!r} C={a[6:9]!r} key={a[9]} col={a[10]}')

    KEYT = ['apple', 'Apple', 'APPLE', 'pear', 'Pear']

    def h_vlt(i1: int, i2: int, i3: int, b1: int, b2: int, b3: int, ik: int) -> bool:
        ks = [KEYT[concretize(i, 0, 4)] for i in (i1, i2, i3)]
        key = KEYT[concretize(ik, 0, 4)]
        rows = tuple(zip(ks, (b1, b2, b3)))
        for i, (k, b) in enumerate(rows):
            setv(MV, f'Sheet1!A{i + 1}', k)
            setv(MV, f'Sheet1!B{i + 1}', b)
        setv(MV, 'Sheet1!D1', key)
        ev = Evaluator(MV)
        r2, r4 = ev.evaluate('Sheet1!Z2'), ev.evaluate('Sheet1!Z4')
        hit = None
        for row in rows:
            if row[0].upper() == key.upper():
                hit = row
                break
        if hit is None:
            return is_err(r2, XE.NaExcelError) and is_err(r4, XE.NaExcelError)
        return nval(r2) == hit[1] and val(r4) == hit[0]
    add('VLOOKUP[text keys, case]', h_vlt, lambda i1, i2, i3, b1, b2, b3, ik: all(0 <= i <= 4 for i in (i1, i2, i3, ik)),
        [(0, 1, 3, 10, 20, 30, 1), (1, 3, 0, 10, 20, 30, 0), (3, 3, 4, 1, 2, 3, 2)],
        f'3-row table with text keys over {KEYT} at every position (forked, duplicates in different spellings included), payload all ints; lookup key over the same texts: '
        'the FIRST row whose key equals it case-insensitively, #N/A when absent', 150,
        lambda *a: f'keys={[KEYT[i % 5] for i in a[:3]]!r} B={a[3:6]!r} key={KEYT[a[6] % 5]!r}')

    # ---------------- CHOOSE
    MCH = mk({'A1': 1, 'B1': 10, 'B2': 20, 'B3': 30, 'Z1': '=CHOOSE(A1,B1,B2,B3)', 'Z2': '=CHOOSE(A1,B1)'})

    def h_choose(i: int, half: bool, a: int, b: int, c: int) -> bool:
        setv(MCH, 'Sheet1!A1', (i + 0.5) if half else i)
        for nm, v in (('B1', a), ('B2', b), ('B3', c)):
            setv(MCH, 'Sheet1!' + nm, v)
        ev = Evaluator(MCH)
        r, r1 = ev.evaluate('Sheet1!Z1'), ev.evaluate('Sheet1!Z2')
        # index truncated to an integer; outside 1..n -> #VALUE!
        ok3 = (nval(r) == (a, b, c)[i - 1]) if 1 <= i <= 3 else is_err(r, XE.ValueExcelError)
        ok1 = (nval(r1) == a) if i == 1 else is_err(r1, XE.ValueExcelError)
        return ok3 and ok1
    add('CHOOSE', h_choose, lambda i, half, a, b, c: -2 <= i <= 5, [(1, False, 7, 8, 9), (3, True, 7, 8, 9), (0, True, 7, 8, 9), (4, False, 7, 8, 9), (-1, False, 1, 2, 3)],
        'index i in -2..5 and i+0.5 (truncated), 3 values / 1 value (all ints): v_i for 1 <= i <= n, #VALUE! otherwise', 20,
        lambda i, half, a, b, c: f'CHOOSE({i + 0.5 if half else i}, {a}, {b}, {c})')

    # ---------------- SUMIF / SUMIFS only where the installed pandas supports them
    if HAVE_APPLYMAP:
        MSI = mk({'A1': 1, 'A2': 2, 'A3': 3, 'B1': 1, 'B2': 1, 'B3': 1, 'C1': 0, 'Z1': '=SUMIF(A1:A3,">"&C1,B1:B3)', 'Z2': '=SUMIF(A1:A3,">"&C1)'})

        def h_sumif(a1: int, a2: int, a3: int, b1: int, b2: int, b3: int, k: int) -> bool:
            for nm, v in (('A1', a1), ('A2', a2), ('A3', a3), ('B1', b1), ('B2', b2), ('B3', b3), ('C1', k)):
                setv(MSI, 'Sheet1!' + nm, v)
            ev = Evaluator(MSI)
            rows = ((a1, b1), (a2, b2), (a3, b3))
            return num_is(ev.evaluate('Sheet1!Z1'), sum(b for a, b in rows if a > k)) and num_is(ev.evaluate('Sheet1!Z2'), sum(a for a, b in rows if a > k))
        add('SUMIF', h_sumif, lambda *a: -9 <= a[-1] <= 9, [(1, 2, 3, 10, 20, 30, 1)], 'SUMIF with and without sum_range; criterion ">"&k, k in -9..9', 40)
    return obs
