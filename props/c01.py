"""C01 — formulas evaluate under Excel's operator precedence and associativity."""
import itertools
import random

from vf.ob import Ob
from props.common import *  # noqa
from xlcalculator.xlfunctions import operator as OPS, math as XM, text as XT

EXPLANATION = ('Formulas are rendered from operator tuples (program shapes, enumerated exhaustively to the tier bound), parsed once '
               'by the real tokenizer/parser into a compiled model; the operand cell values (and the unary-minus placement) are symbolic '
               'and z3 decides, per path of the real evaluator, equality with the reference tree of Excel\'s grammar folded with the same '
               'operator functions; operator meaning itself is checked against Python integer semantics.')
ASSUMPTIONS = ['P1: float()/int() of xlcalculator objects follow the __float__/__int__ protocol symbolically',
               'P2: ExcelType.__format__ is a constant while tracing (error-message f-strings only)',
               'operand values are Python ints (floats only arise as quotients and are modelled as reals)',
               'percent applies to numeric literals only; scientific literals are Excel-normalised (d.dE+dd)']
TRUSTED = ['reference grammar table in props/c01.py (PREC)']

BIN = ['^', '*', '/', '+', '-', '&', '=', '<>', '<', '>', '<=', '>=']
PREC = {'^': 5, '*': 4, '/': 4, '+': 3, '-': 3, '&': 2, '=': 1, '<>': 1, '<': 1, '>': 1, '<=': 1, '>=': 1}
FUNC = {'^': XM.POWER, '*': OPS.OP_MUL, '/': OPS.OP_DIV, '+': OPS.OP_ADD, '-': OPS.OP_SUB, '&': XT.CONCAT,
        '=': OPS.OP_EQ, '<>': OPS.OP_NE, '<': OPS.OP_LT, '>': OPS.OP_GT, '<=': OPS.OP_LE, '>=': OPS.OP_GE}
CELLS = ['A1', 'B1', 'C1', 'D1']


def ref_tree(ops):
    """Excel grammar on operand indices 0..n: split at the rightmost operator of lowest precedence
    (all binary operators associate to the left)."""
    def go(lo, hi):  # operands lo..hi inclusive, operators lo..hi-1
        if lo == hi:
            return lo
        best = None
        for i in range(lo, hi):
            if best is None or PREC[ops[i]] <= PREC[ops[best]]:
                best = i
        return (ops[best], go(lo, best), go(best + 1, hi))
    return go(0, len(ops))


def fold(tree, operands):
    if isinstance(tree, int):
        return operands[tree]
    op, l, r = tree
    return FUNC[op](fold(l, operands), fold(r, operands))


def tree_str(tree, names):
    if isinstance(tree, int):
        return names[tree]
    op, l, r = tree
    return f'({tree_str(l, names)}{op}{tree_str(r, names)})'


def render(ops, neg=(), sp='', lead='=', parens=None, tail=''):
    """Formula text. neg: operand indices that get a unary minus; sp: blank placed around binary operators."""
    toks = []
    n = len(ops) + 1
    for i in range(n):
        t = ('-' if i in neg else '') + CELLS[i]
        toks.append(t)
        if i < len(ops):
            toks.append(sp + ops[i] + sp)
    return lead + ''.join(toks) + tail


def render_tree(tree, neg, sp=''):
    """Fully parenthesised rendering of the reference tree (redundant parentheses)."""
    if isinstance(tree, int):
        return ('-' if tree in neg else '') + CELLS[tree]
    op, l, r = tree
    return '(' + render_tree(l, neg, sp) + sp + op + sp + render_tree(r, neg, sp) + ')'


def operand(v, negated):
    x = cast_native(v)
    return OPS.OP_NEG(x) if negated else x


def domain(ops):
    """Operand ranges per shape: what is rendered to text by & is small and non-negative (z3's int->str is the cost
    driver; a quotient rendered to text has to be realised, hence 0..3); exponents are 0..3 after their unary minus
    (CrossHair realises the base for negative exponents)."""
    if '&' in ops and ('/' in ops or any(PREC[o] == 1 for o in ops)):
        lo, hi = 0, 3
    elif '&' in ops:
        lo, hi = 0, 12
    else:
        lo, hi = -999, 999
    exps = [i + 1 for i, o in enumerate(ops) if o == '^']
    return lo, hi, exps


def bounds_pre(ops, with_neg=True):
    n = len(ops) + 1
    lo, hi, exps = domain(ops)

    def pre(*a):
        for i in range(n):
            if not (lo <= a[i] <= hi):
                return False
        for i in exps:
            e = -a[i] if (with_neg and a[n + i]) else a[i]
            if not (0 <= e <= 3):
                return False
        return True
    return pre


def cost_hint(ops):
    c = 3.0 * (2 if len(ops) == 3 else 1)
    if '&' in ops:
        c *= 6
    if '^' in ops:
        c *= 3
    return c


def bounds_text(ops):
    lo, hi, exps = domain(ops)
    return f'operands in {lo}..{hi} (ints)' + (f', exponent operands {[CELLS[i] for i in exps]} in 0..3 after their unary minus' if exps else '')


def wit_in(wit, lo, hi, n):
    return [w for w in wit if all(lo <= x <= hi for x in w[:n])] or [tuple([min(max(x, lo), hi) for x in wit[0][:n]]) + tuple(wit[0][n:])]


def shape_ob(ops, timeout, family):
    """All 2^n unary-minus placements explored by path forking (symbolic Booleans select the pre-parsed variant)."""
    n = len(ops) + 1
    tree = ref_tree(ops)
    variants = {}
    for negs in itertools.product([False, True], repeat=n):
        neg = tuple(i for i in range(n) if negs[i])
        cells = {c: 1 for c in CELLS[:n]}
        cells['Z1'] = render(ops, neg)
        variants[negs] = mk(cells)

    def body(vals, negs):
        key = tuple(bool(x) for x in negs)   # realises the Booleans: one fork per placement
        m = variants[key]
        for c, v in zip(CELLS, vals):
            setv(m, 'Sheet1!' + c, v)
        got = evaluate(m, 'Sheet1!Z1')
        exp = fold(tree, [operand(v, ng) for v, ng in zip(vals, key)])
        return same(got, exp)

    if n == 3:
        def h(a: int, b: int, c: int, na: bool, nb: bool, nc: bool) -> bool:
            return body((a, b, c), (na, nb, nc))
        wit = [(7, 2, 3, False, False, False), (-4, 2, 5, True, False, True), (0, 0, 0, False, True, False)]
    else:
        def h(a: int, b: int, c: int, d: int, na: bool, nb: bool, nc: bool, nd: bool) -> bool:
            return body((a, b, c, d), (na, nb, nc, nd))
        wit = [(7, 2, 3, 2, False, False, False, False), (-4, 2, 5, 1, True, False, True, False)]
    h.__name__ = 'shape_' + '_'.join(ops)
    name = f'{family}[{" ".join(ops)}]'
    pre = bounds_pre(ops)
    wit = [w for w in wit if pre(*w)] or [tuple([1] * n + [False] * n)]
    return Ob(name, h, pre=pre, witness=wit, timeout=timeout, family=family, cost=cost_hint(ops),
              bounds=f'{bounds_text(ops)}, all {2**n} unary-minus placements by forking, formula {render(ops)} vs tree {tree_str(tree, CELLS)}',
              show=lambda *a: f'{render(ops, tuple(i for i in range(n) if a[n + i]))} with {dict(zip(CELLS, a[:n]))}; reference tree {tree_str(tree, CELLS)}')


def render_ob(ops, timeout):
    """Rendering invariance: blanks around operators / after '=' / at the end, redundant parentheses."""
    n = len(ops) + 1
    tree = ref_tree(ops)
    texts = [
        render(ops, sp=' '),
        render(ops, lead='= '),
        render(ops, tail=' '),
        render(ops, sp='  ', lead='=  ', tail='  '),
        '=' + render_tree(tree, ()),
        '=(' + render_tree(tree, (), ' ') + ')',
        '=' + ''.join(('(' + CELLS[i] + ')') + (ops[i] if i < len(ops) else '') for i in range(n)),
        '=' + ''.join(('( ' + CELLS[i] + ' )') + (' ' + ops[i] + ' ' if i < len(ops) else '') for i in range(n)),
    ]
    models = []
    for t in texts:
        cells = {c: 1 for c in CELLS[:n]}
        cells['Z1'] = t
        try:
            models.append((t, mk(cells), None))
        except Exception as e:   # parse failure is a (concrete) violation of the property
            models.append((t, None, e))

    def h(a: int, b: int, c: int, k: int) -> bool:
        t, m, err = models[k]
        if m is None:
            return False
        for cc, v in zip(CELLS, (a, b, c)):
            setv(m, 'Sheet1!' + cc, v)
        got = evaluate(m, 'Sheet1!Z1')
        exp = fold(tree, [cast_native(v) for v in (a, b, c)])
        return same(got, exp)
    h.__name__ = 'render_' + '_'.join(ops)
    K = len(texts)
    bp = bounds_pre(ops, with_neg=False)
    w0 = (7, 2, 3) if bp(7, 2, 3) else (1, 1, 1)
    return Ob(f'c01.render[{" ".join(ops)}]', h, pre=lambda a, b, c, k: bp(a, b, c) and 0 <= k < K,
              witness=[w0 + (k,) for k in range(K)], cost=cost_hint(ops), timeout=timeout, family='c01.render',
              bounds=f'{bounds_text(ops)}; {K} renderings (blanks around operators, after =, trailing; redundant parentheses) by forking on k',
              show=lambda a, b, c, k: f'{texts[k]!r} with A1={a} B1={b} C1={c}; reference tree {tree_str(tree, CELLS)}'
              + (f' [parse error {models[k][2]!r}]' if models[k][1] is None else ''))


# ---------------------------------------------------------------- operator meaning
def meaning_obs():
    obs = []
    M = {op: mk({'A1': 1, 'B1': 1, 'Z1': f'=A1{op}B1'}) for op in BIN}
    MNEG = mk({'A1': 1, 'Z1': '=-A1'})

    def run(op, a, b):
        m = M[op]
        setv(m, 'Sheet1!A1', a)
        setv(m, 'Sheet1!B1', b)
        return evaluate(m, 'Sheet1!Z1')
    py = {'*': lambda a, b: a * b, '+': lambda a, b: a + b, '-': lambda a, b: a - b}
    def mk_num(op, f):
        def h(a: int, b: int) -> bool:
            return num_is(run(op, a, b), f(a, b))
        return h
    for op, f in py.items():
        h = mk_num(op, f)
        obs.append(Ob(f'c01.meaning[{op}]', h, witness=[(3, 4), (-2, 0)], timeout=30, cost=1, family='c01.meaning',
                      bounds='a, b: all ints', show=lambda a, b, op=op: f'=A1{op}B1 with A1={a} B1={b}'))
    cmpf = {'=': lambda a, b: a == b, '<>': lambda a, b: a != b, '<': lambda a, b: a < b, '>': lambda a, b: a > b,
            '<=': lambda a, b: a <= b, '>=': lambda a, b: a >= b}
    def mk_cmp(op, f):
        def h(a: int, b: int) -> bool:
            return bool_is(run(op, a, b), f(a, b))
        return h
    for op, f in cmpf.items():
        h = mk_cmp(op, f)
        obs.append(Ob(f'c01.meaning[{op}]', h, witness=[(3, 4), (4, 4), (5, 4)], timeout=30, cost=1, family='c01.meaning',
                      bounds='a, b: all ints', show=lambda a, b, op=op: f'=A1{op}B1 with A1={a} B1={b}'))

    def h_concat(a: int, b: int) -> bool:
        return text_is(run('&', a, b), str(a) + str(b))
    obs.append(Ob('c01.meaning[&]', h_concat, pre=lambda a, b: -999 <= a <= 999 and -999 <= b <= 999, witness=[(12, -3)], timeout=60,
                  family='c01.meaning', bounds='a, b in -999..999', show=lambda a, b: f'=A1&B1 with A1={a} B1={b}'))

    def mk_div(d):
        def h_div(a: int) -> bool:
            r = run('/', a, d)
            if d == 0:
                return is_err(r, XE.DivZeroExcelError)
            return isinstance(r, T.Number) and abs(r.value * d - a) <= 1e-9 * (1 + abs(a))
        return h_div
    for d in (1, -1, 2, -2, 3, 7, 10, 0):
        h_div = mk_div(d)
        obs.append(Ob(f'c01.meaning[/ by {d}]', h_div, witness=[(7,), (0,)], timeout=30, cost=1, family='c01.meaning',
                      bounds=f'a: all ints, divisor {d}', show=lambda a, d=d: f'=A1/B1 with A1={a} B1={d}'))

    def h_div0(a: int, b: int) -> bool:
        r = run('/', a, b)
        return is_err(r, XE.DivZeroExcelError) if b == 0 else isinstance(r, T.Number)
    obs.append(Ob('c01.meaning[/ zero iff]', h_div0, witness=[(7, 0), (7, 2)], timeout=30, cost=1, family='c01.meaning',
                  bounds='a, b: all ints: #DIV/0! exactly when b = 0', show=lambda a, b: f'=A1/B1 with A1={a} B1={b}'))

    def mk_pow(e):
        def h_pow(a: int) -> bool:
            return num_is(run('^', a, e), a ** e)
        return h_pow
    for e in range(0, 5):
        h_pow = mk_pow(e)
        obs.append(Ob(f'c01.meaning[^{e}]', h_pow, pre=lambda a: -1000 <= a <= 1000, witness=[(3,), (-2,), (0,)], timeout=40, cost=1,
                      family='c01.meaning', bounds=f'base in -1000..1000, exponent {e}', show=lambda a, e=e: f'=A1^B1 with A1={a} B1={e}'))
    def mk_pow2(base):
        def h_pow2(e: int) -> bool:
            return num_is(run('^', base, e), base ** e)
        return h_pow2
    for base in (2, -3, 10):
        h_pow2 = mk_pow2(base)
        obs.append(Ob(f'c01.meaning[{base}^e]', h_pow2, pre=lambda e: 0 <= e <= 6, witness=[(3,)], timeout=40, cost=1,
                      family='c01.meaning', bounds=f'base {base}, exponent 0..6', show=lambda e, base=base: f'=A1^B1 with A1={base} B1={e}'))

    def mk_pown(base):
        def h_pown(e: int) -> bool:
            r = run('^', base, e)
            return isinstance(r, T.Number) and abs(r.value - float(base) ** e) <= 1e-12
        return h_pown
    for base in (2, -2, 10, 1):
        obs.append(Ob(f'c01.meaning[{base}^-e]', mk_pown(base), pre=lambda e: -3 <= e <= -1, witness=[(-2,)], timeout=40, cost=1,
                      family='c01.meaning', bounds=f'base {base}, exponent -3..-1 (realised: 3 paths)', show=lambda e, base=base: f'=A1^B1 with A1={base} B1={e}'))

    def h_neg(a: int) -> bool:
        setv(MNEG, 'Sheet1!A1', a)
        return num_is(evaluate(MNEG, 'Sheet1!Z1'), -a)
    obs.append(Ob('c01.meaning[u-]', h_neg, witness=[(5,), (0,)], timeout=30, cost=1, family='c01.meaning', bounds='a: all ints'))

    # numeric literal forms: percent and scientific (texts are concrete Excel-normalised forms; cell operand symbolic)
    lits = [('50%', 0.5, '*'), ('5%', 0.05, '*'), ('12.5%', 0.125, '*'), ('200%', 2.0, '*'),
            ('1.5E+2', 150.0, '+'), ('2E-1', 0.2, '*'), ('1E+0', 1.0, '*'), ('1.25E+3', 1250.0, '-'), ('3', 3, '*'), ('0.25', 0.25, '*')]
    def mk_lit(m, value, op):
      def h_lit(a: int) -> bool:
            setv(m, 'Sheet1!A1', a)
            r = evaluate(m, 'Sheet1!Z1')
            r2 = evaluate(m, 'Sheet1!Y1')
            if op == '*':
                e1, e2 = a * value, value * a
            elif op == '+':
                e1, e2 = a + value, value + a
            else:
                e1, e2 = a - value, value - a
            return (isinstance(r, T.Number) and abs(r.value - e1) <= 1e-9 * (1 + abs(e1))
                    and isinstance(r2, T.Number) and abs(r2.value - e2) <= 1e-9 * (1 + abs(e2)))
      return h_lit
    for text, value, op in lits:
        m = mk({'A1': 1, 'Z1': f'=A1{op}{text}', 'Y1': f'={text}{op}A1'})
        h_lit = mk_lit(m, value, op)
        obs.append(Ob(f'c01.literal[{text}]', h_lit, pre=lambda a: -10 ** 6 <= a <= 10 ** 6, witness=[(8,), (-3,)], timeout=40, family='c01.literal',
                      bounds='a in -10^6..10^6; literal text concrete; tolerance 1e-9 relative (floats as reals)',
                      show=lambda a, text=text, op=op: f'=A1{op}{text} and ={text}{op}A1 with A1={a}'))

    def mk_dz(m):
        def h_dz(a: int, b: int) -> bool:
            setv(m, 'Sheet1!A1', a)
            setv(m, 'Sheet1!B1', b)
            return is_err(evaluate(m, 'Sheet1!Z1'), XE.DivZeroExcelError)
        return h_dz

    # #DIV/0! inside a sub-expression is the result of the whole formula
    for f in ('=A1+B1/C1', '=A1/C1*B1', '=-(A1/C1)', '=(A1/C1)&B1', '=(A1/C1)=B1', '=B1<A1/C1', '=A1/C1^2',
              '=B1*(A1/C1)', '=B1+(A1/C1)', '=B1&(A1/C1)', '=B1-B1*(A1/C1)', '=(B1-A1)*(1/C1)', '=B1^(A1/C1)'):
        m = mk({'A1': 1, 'B1': 1, 'C1': 0, 'Z1': f})
        h_dz = mk_dz(m)
        obs.append(Ob(f'c01.divzero[{f}]', h_dz, witness=[(3, 4)], timeout=30, family='c01.divzero', bounds='a, b: all ints; C1 = 0',
                      show=lambda a, b, f=f: f'{f} with A1={a} B1={b} C1=0'))
    return obs


def build(tier, seed):
    obs = meaning_obs()
    pairs = list(itertools.product(BIN, repeat=2))
    for ops in pairs:
        obs.append(shape_ob(ops, 90, 'c01.pair'))
    # rendering invariance: quick = the pairs that straddle each precedence boundary; thorough = all pairs
    boundary = [('+', '*'), ('*', '+'), ('*', '^'), ('^', '*'), ('&', '+'), ('+', '&'), ('=', '&'), ('&', '='), ('-', '-'), ('/', '/'),
                ('^', '^'), ('<', '+'), ('/', '*'), ('-', '+'), ('<=', '<>')]
    for ops in (pairs if tier == 'thorough' else boundary):
        obs.append(render_ob(ops, 90))
    if tier == 'thorough':
        # all triples except the ones whose value terms do not finish in the solver (text rendering of a quotient or of a
        # power, two powers, two concatenations): those operator combinations are covered at the pair level only
        def heavy(ops):
            return (ops.count('&') >= 2 or ops.count('^') >= 2 or ('&' in ops and ('^' in ops or '/' in ops)))
        for ops in itertools.product(BIN, repeat=3):
            if not heavy([o[0] if isinstance(o, tuple) else o for o in ops]):
                obs.append(shape_ob(ops, 120, 'c01.triple'))
    else:
        rnd = random.Random(seed)
        triples = list(itertools.product(BIN, repeat=3))
        for ops in rnd.sample(triples, 24):
            obs.append(shape_ob(ops, 120, 'c01.triple'))
    return obs
