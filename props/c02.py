"""C02 — every well-formed formula parses to the tree its text denotes."""
import itertools
import random

from vf.ob import Ob
from props.common import *  # noqa
from xlcalculator import parser as P, ast_nodes as AN, xltypes as XT

EXPLANATION = ('The formula text is built inside the harness from a concrete tree skeleton whose leaves (string-literal content over all code '
               'points, sheet names, numbers) and whitespace placement are symbolic; the real tokenizer and parser run on that symbolic text and '
               'z3 decides, per path, structural equality of the returned AST with the skeleton (the oracle is the generator\'s own tree, no second parser).')
ASSUMPTIONS = ['string literals up to the stated length over all Unicode code points; sheet names up to the stated length',
               'outside: array constants {..}, structured/workbook references [..], empty arguments f(,), union/intersection operators']
TRUSTED = ['tree walker and renderer in props/c02.py']

PARSER = P.FormulaParser()


# ---------------------------------------------------------------- walking the real AST
def shape(node):
    """The real AST as nested tuples."""
    if isinstance(node, AN.FunctionNode):
        return ('call', node.tvalue, tuple(shape(a) for a in node.args))
    if isinstance(node, AN.OperatorNode):
        if node.ttype == 'operator-infix':
            return ('bin', node.tvalue, shape(node.left), shape(node.right))
        if node.ttype == 'operator-prefix':
            return ('pre', node.tvalue, shape(node.right))
        return ('post', node.tvalue, shape(node.left))
    if isinstance(node, AN.RangeNode):
        return ('ref', node.tvalue)
    if isinstance(node, AN.OperandNode):
        return (node.tsubtype, node.tvalue)
    return ('?', repr(node))


class EqDict(dict):
    """Empty named-range table whose membership test compares by equality instead of hashing (hashing a symbolic
    str makes CrossHair realise it, i.e. enumerate sheet names one by one).  Same answers as dict for str keys."""

    def __contains__(self, k):
        for x in self.keys():
            if x == k:
                return True
        return False


NO_NAMES = EqDict()


def parse(text):
    return shape(PARSER.parse(text, NO_NAMES))


def eq_shape(a, b):
    """Structural equality that tolerates symbolic strings inside."""
    if isinstance(a, tuple) != isinstance(b, tuple):
        return False
    if isinstance(a, tuple):
        if len(a) != len(b):
            return False
        for x, y in zip(a, b):
            if not eq_shape(x, y):
                return False
        return True
    return bool(a == b)


def quote_str(s):
    out = '"'
    for ch in s:
        out += '""' if ch == '"' else ch
    return out + '"'


def quote_sheet(s):
    out = "'"
    for ch in s:
        out += "''" if ch == "'" else ch
    return out + "'"


# ---------------------------------------------------------------- A. string literals of arbitrary content
def strlit_obs(maxlen, timeout):
    obs = []
    placements = {
        'concat-mid': (lambda q: '=A1&' + q + '&B1', lambda s: ('bin', '&', ('bin', '&', ('ref', 'A1'), ('text', s)), ('ref', 'B1'))),
        'alone': (lambda q: '=' + q, lambda s: ('text', s)),
        'arg-only': (lambda q: '=LEN(' + q + ')', lambda s: ('call', 'LEN', (('text', s),))),
        'arg-first': (lambda q: '=CONCAT(' + q + ',A1)', lambda s: ('call', 'CONCAT', (('text', s), ('ref', 'A1')))),
        'arg-mid': (lambda q: '=CONCAT(A1,' + q + ',B1)', lambda s: ('call', 'CONCAT', (('ref', 'A1'), ('text', s), ('ref', 'B1')))),
        'arg-last': (lambda q: '=CONCAT(A1,' + q + ')', lambda s: ('call', 'CONCAT', (('ref', 'A1'), ('text', s)))),
        'paren': (lambda q: '=(' + q + ')&A1', lambda s: ('bin', '&', ('text', s), ('ref', 'A1'))),
        'cmp-in-if': (lambda q: '=IF(A1=' + q + ',1,B1)', lambda s: ('call', 'IF', (('bin', '=', ('ref', 'A1'), ('text', s)), ('number', '1'), ('ref', 'B1')))),
        'nested-call': (lambda q: '=LEFT(UPPER(' + q + '),2)', lambda s: ('call', 'LEFT', (('call', 'UPPER', (('text', s),)), ('number', '2')))),
    }

    def mk_h(render, expect):
        def h(s: str) -> bool:
            text = render(quote_str(s))
            got = parse(text)
            XT.XLFormula(text, sheet_name='Sheet1')   # tokenises on construction: must not raise
            return eq_shape(got, expect(s))
        return h
    for name, (render, expect) in placements.items():
        obs.append(Ob(f'c02.strlit[{name}]', mk_h(render, expect), pre=lambda s: len(s) <= maxlen,
                      witness=[('ab',), ('',), ('"',), (':',), (': ',), ("'",), ('a,b',), ('(',), (')',), ('{',), ('#',), ('%',), ('!',), (' ',), ('\n',), ('é',)],
                      timeout=timeout, family='c02.strlit', cost=15,
                      bounds=f'string literal content: all code points, length <= {maxlen}; placement {name}',
                      show=lambda s, render=render: f'{render(quote_str(s))!r}'))

    def h2(s: str, t: str) -> bool:
        text = '=IF(' + quote_str(s) + '=A1,' + quote_str(t) + ',' + quote_str(s) + ')'
        return eq_shape(parse(text), ('call', 'IF', (('bin', '=', ('text', s), ('ref', 'A1')), ('text', t), ('text', s))))
    obs.append(Ob('c02.strlit[two-literals]', h2, pre=lambda s, t: len(s) <= 2 and len(t) <= 2, witness=[('a', 'b'), ('"', ','), (':', ')')],
                  timeout=timeout, family='c02.strlit', cost=25, bounds='two literals s, t: all code points, length <= 2 each',
                  show=lambda s, t: f'=IF({quote_str(s)}=A1,{quote_str(t)},{quote_str(s)})'))
    return obs


# ---------------------------------------------------------------- B. sheet-qualified references
def sheet_obs(maxlen_q, maxlen_p, timeout):
    obs = []

    def coord(dc, dr, col, row):
        return ('$' if dc else '') + col + ('$' if dr else '') + row

    def valid_title(n):
        # Excel's own rule for sheet titles: none of : \ / ? * [ ] ; not starting or ending with an apostrophe
        if not (1 <= len(n) <= maxlen_q):
            return False
        for ch in n:
            if ch in ':\\/?*[]':
                return False
        return n[0] != "'" and n[len(n) - 1] != "'"

    def h_quoted(n: str, dc: bool, dr: bool) -> bool:
        ref = quote_sheet(n) + '!' + coord(dc, dr, 'B', '7')
        t1 = parse('=' + ref + '+1')
        t2 = parse('=SUM(A1,' + ref + ')')
        want = ('ref', n + '!' + coord(dc, dr, 'B', '7'))
        return eq_shape(t1, ('bin', '+', want, ('number', '1'))) and eq_shape(t2, ('call', 'SUM', (('ref', 'A1'), want)))
    obs.append(Ob('c02.sheet[quoted cell]', h_quoted, pre=lambda n, dc, dr: valid_title(n),
                  witness=[('My Sheet', False, False), ("o'b", True, True), ('a+b', False, True), ('x!', True, False)], timeout=timeout, cost=20,
                  family='c02.sheet', bounds=f"quoted sheet name: all code points except Excel's forbidden : \\ / ? * [ ] and no leading/trailing apostrophe, length 1..{maxlen_q} (' doubled by the renderer); $ variants by forking",
                  show=lambda n, dc, dr: f"={quote_sheet(n)}!{coord(dc, dr, 'B', '7')}+1 and =SUM(A1,...)"))

    def h_apostrophe(a: str, b: str, dc: bool) -> bool:
        n = a + "'" + b                       # an apostrophe inside the title (written doubled in the formula)
        ref = quote_sheet(n) + '!' + coord(dc, dc, 'B', '7')
        want = ('ref', n + '!' + coord(dc, dc, 'B', '7'))
        return (eq_shape(parse('=' + ref + '+1'), ('bin', '+', want, ('number', '1'))) and eq_shape(parse('=SUM(' + quote_sheet(n) + '!A1:A2,' + ref + ')'), ('call', 'SUM', (('ref', n + '!A1:A2'), want))))
    obs.append(Ob("c02.sheet[apostrophe inside]", h_apostrophe, pre=lambda a, b, dc: valid_title(a) and valid_title(b) and len(a) == 1 and len(b) == 1, witness=[('I', 's', False), ('Q', '2', True)],
                  timeout=timeout, cost=20, family='c02.sheet', bounds="quoted sheet title a'b with a, b any valid title character: the doubled apostrophe stands for one",
                  show=lambda a, b, dc: f"='{a}''{b}'!B7+1"))

    def h_quoted_range(n: str, d1: bool, d2: bool) -> bool:
        rng = coord(d1, d1, 'A', '1') + ':' + coord(d2, d2, 'C', '3')
        ref = quote_sheet(n) + '!' + rng
        t = parse('=SUM(' + ref + ')*2')
        return eq_shape(t, ('bin', '*', ('call', 'SUM', (('ref', n + '!' + rng),)), ('number', '2')))
    obs.append(Ob('c02.sheet[quoted range]', h_quoted_range, pre=lambda n, d1, d2: valid_title(n),
                  witness=[('My Sheet', False, False), ("o'b", True, True)], timeout=timeout, cost=20, family='c02.sheet',
                  bounds=f'quoted sheet name length 1..{maxlen_q}; range A1:C3 with $ variants by forking',
                  show=lambda n, d1, d2: f"=SUM({quote_sheet(n)}!{coord(d1, d1, 'A', '1')}:{coord(d2, d2, 'C', '3')})*2"))

    # Unquoted names: a symbolic character inside an unquoted token meets float()/the scientific-notation regex in the
    # tokenizer and does not finish (measured: length 1 not confirmed in 600 s, 120k solver queries), so the unquoted
    # spellings are a concrete list selected by a symbolic index (explored by forking).
    PLAIN = ['S', 'Sh', 'Sheet2', 'a1', '_x', 'DATA_2020', 'x.y', 'Übersicht', 'E', 'e1', 'TRUE1', 'A']

    def h_plain(k: int, dc: bool, dr: bool) -> bool:
        n = PLAIN[k]
        ref = n + '!' + coord(dc, dr, 'B', '7')
        t1 = parse('=' + ref + '*2')
        t2 = parse('=MAX(' + ref + ',' + n + '!A1:B2)-' + ref)
        want = ('ref', ref)
        return eq_shape(t1, ('bin', '*', want, ('number', '2'))) and eq_shape(t2, ('bin', '-', ('call', 'MAX', (want, ('ref', n + '!A1:B2'))), want))
    obs.append(Ob('c02.sheet[plain]', h_plain, pre=lambda k, dc, dr: 0 <= k < len(PLAIN), witness=[(1, False, False), (3, True, True), (4, False, True)],
                  timeout=timeout, cost=20, family='c02.sheet',
                  bounds=f'unquoted sheet names from {PLAIN} (by forking) x $ variants',
                  show=lambda k, dc, dr: f"={PLAIN[k]}!{coord(dc, dr, 'B', '7')}*2 and =MAX(...)"))

    def h_dollar(dc: bool, dr: bool, d1: bool, d2: bool, d3: bool, d4: bool) -> bool:
        c = coord(dc, dr, 'AB', '12')
        r = coord(d1, d2, 'A', '1') + ':' + coord(d3, d4, 'B', '20')
        t = parse('=' + c + '+SUM(' + r + ')')
        return eq_shape(t, ('bin', '+', ('ref', c), ('call', 'SUM', (('ref', r),))))
    obs.append(Ob('c02.ref[$ variants]', h_dollar, witness=[(False,) * 6, (True,) * 6], timeout=timeout, cost=8, family='c02.sheet',
                  bounds='all 64 $ placements on a cell and a range reference (by forking)',
                  show=lambda *d: 'cell/range with $ flags ' + str(d)))
    return obs


# ---------------------------------------------------------------- C. numbers, booleans, error literals
def literal_obs(timeout):
    obs = []

    def h_int(v: int, w: int) -> bool:
        sv, sw = str(v), str(w)
        t = parse('=A1+' + sv + '*SUM(' + sw + ',B1)')
        return eq_shape(t, ('bin', '+', ('ref', 'A1'), ('bin', '*', ('number', sv), ('call', 'SUM', (('number', sw), ('ref', 'B1'))))))
    obs.append(Ob('c02.number[int]', h_int, pre=lambda v, w: 0 <= v <= 999 and 0 <= w <= 99, witness=[(12, 3), (0, 0), (999, 99)], timeout=timeout, cost=30,
                  family='c02.literal', bounds='integer literals v in 0..999, w in 0..99 rendered by str()', show=lambda v, w: f'=A1+{v}*SUM({w},B1)'))
    concrete = ['1.5', '0.25', '10.75', '1.5E+2', '2E-1', '1E+0', '1.25E+3', '9.99E-10']
    for lit in concrete:
        def mk_h(lit):
            def h(k: int) -> bool:
                # the literal is placed at one of 4 positions chosen by k
                if k == 0:
                    return eq_shape(parse('=' + lit), ('number', lit))
                if k == 1:
                    return eq_shape(parse('=A1*' + lit), ('bin', '*', ('ref', 'A1'), ('number', lit)))
                if k == 2:
                    return eq_shape(parse('=' + lit + '-A1'), ('bin', '-', ('number', lit), ('ref', 'A1')))
                return eq_shape(parse('=ROUND(' + lit + ',A1)'), ('call', 'ROUND', (('number', lit), ('ref', 'A1'))))
            return h
        obs.append(Ob(f'c02.number[{lit}]', mk_h(lit), pre=lambda k: 0 <= k <= 3, witness=[(0,), (1,), (2,), (3,)], timeout=timeout, cost=2,
                      family='c02.literal', bounds='concrete Excel-normalised literal at 4 positions (forked)', show=lambda k, lit=lit: f'literal {lit} position {k}'))
    for lit, st in [('TRUE', 'logical'), ('FALSE', 'logical')] + [(c, 'error') for c in ERR_CODES]:
        def mk_h2(lit, st):
            def h(k: int) -> bool:
                if k == 0:
                    return eq_shape(parse('=' + lit), (st, lit))
                if k == 1:
                    return eq_shape(parse('=IF(A1,' + lit + ',B1)'), ('call', 'IF', (('ref', 'A1'), (st, lit), ('ref', 'B1'))))
                if k == 2:
                    return eq_shape(parse('=ISERROR(' + lit + ')'), ('call', 'ISERROR', ((st, lit),)))
                return eq_shape(parse('=A1=' + lit), ('bin', '=', ('ref', 'A1'), (st, lit)))
            return h
        obs.append(Ob(f'c02.literal[{lit}]', mk_h2(lit, st), pre=lambda k: 0 <= k <= 3, witness=[(0,), (1,), (2,), (3,)], timeout=timeout, cost=2,
                      family='c02.literal', bounds='concrete literal at 4 positions (forked)', show=lambda k, lit=lit: f'literal {lit} position {k}'))
    return obs


# ---------------------------------------------------------------- D. whitespace / leading '=' / '@' invariance on skeletons
# A skeleton is a list of tokens; between consecutive tokens marked True a blank or newline may be inserted.
def tok_render(tokens, ws_at, lead, kinds):
    out = lead
    for i, t in enumerate(tokens):
        out += t
        if i in ws_at:
            out += kinds[ws_at.index(i)]
    return out


SKELETONS = [
    # (tokens, boundaries after which white-space is allowed (incl. trailing), expected tree)
    (['A1', '+', 'B1', '*', 'C1'], [0, 1, 2, 3, 4],
     ('bin', '+', ('ref', 'A1'), ('bin', '*', ('ref', 'B1'), ('ref', 'C1')))),
    (['SUM(', 'A1', ',', 'B1:C2', ',', '3', ')'], [0, 1, 2, 3, 4, 5, 6],
     ('call', 'SUM', (('ref', 'A1'), ('ref', 'B1:C2'), ('number', '3')))),
    (['IF(', 'A1', '>=', '2', ',', '"a b"', ',', 'MAX(', 'B1', ',', 'C1', ')', ')'], [0, 1, 2, 3, 4, 5, 6, 7, 8, 9, 10, 11, 12],
     ('call', 'IF', (('bin', '>=', ('ref', 'A1'), ('number', '2')), ('text', 'a b'), ('call', 'MAX', (('ref', 'B1'), ('ref', 'C1')))))),
    (['(', 'A1', '-', 'B1', ')', '/', '(', 'C1', '&', '"x"', ')'], [0, 1, 2, 3, 4, 5, 6, 7, 8, 9, 10],
     ('bin', '/', ('bin', '-', ('ref', 'A1'), ('ref', 'B1')), ('bin', '&', ('ref', 'C1'), ('text', 'x')))),
    (['-', 'A1', '^', '2', '<>', "'My Sheet'!$B$2"], [1, 2, 3, 4, 5],
     ('bin', '<>', ('bin', '^', ('pre', '-', ('ref', 'A1')), ('number', '2')), ('ref', 'My Sheet!$B$2'))),
    (['ROUND(', 'Sheet2!A1', '*', '1.5E+2', ',', '-', '1', ')'], [0, 1, 2, 3, 4, 6, 7],
     ('call', 'ROUND', (('bin', '*', ('ref', 'Sheet2!A1'), ('number', '1.5E+2')), ('pre', '-', ('number', '1'))))),
    (['ISERROR(', '#DIV/0!', ')', '=', 'TRUE'], [0, 1, 2, 3, 4],
     ('bin', '=', ('call', 'ISERROR', (('error', '#DIV/0!'),)), ('logical', 'TRUE'))),
    (['AND(', 'A1', ',', 'OR(', 'B1', ',', 'NOT(', 'C1', ')', ')', ')'], list(range(11)),
     ('call', 'AND', (('ref', 'A1'), ('call', 'OR', (('ref', 'B1'), ('call', 'NOT', (('ref', 'C1'),))))))),
    (['PI()', '*', 'A1'], [0, 1, 2],
     ('bin', '*', ('call', 'PI', ()), ('ref', 'A1'))),
    (['ROUND(', 'PI()', ',', 'A1', ')'], [0, 1, 2, 3, 4],
     ('call', 'ROUND', (('call', 'PI', ()), ('ref', 'A1')))),
    (['IF(', 'TRUE()', ',', 'SUM(', '1', ',', 'PI()', ',', 'NOW()', ')', ',', '-', 'PI()', ')'], [0, 1, 2, 3, 4, 5, 6, 7, 8, 9, 10, 12, 13],
     ('call', 'IF', (('call', 'TRUE', ()), ('call', 'SUM', (('number', '1'), ('call', 'PI', ()), ('call', 'NOW', ()))), ('pre', '-', ('call', 'PI', ()))))),
    (['VLOOKUP(', 'A1', ',', '$B$1:$D$9', ',', '2', ',', 'FALSE', ')'], list(range(9)),
     ('call', 'VLOOKUP', (('ref', 'A1'), ('ref', '$B$1:$D$9'), ('number', '2'), ('logical', 'FALSE')))),
]


def ws_obs(timeout, thorough):
    obs = []
    KINDS = [' ', '\n', '  ']
    LEADS = ['=', '= ', ' =', '', '\n=', '=\n ', '  = ']
    for si, (tokens, bounds_, expect) in enumerate(SKELETONS):
        nb = len(bounds_)
        base = ''.join(tokens)

        def mk_h(tokens, bounds_, expect):
            def h(i: int, j: int, ki: int, kj: int) -> bool:
                ws_at, kk = [bounds_[i]], [KINDS[ki]]
                if j != i:
                    ws_at.append(bounds_[j]); kk.append(KINDS[kj])
                text = tok_render(tokens, ws_at, '=', kk)
                return eq_shape(parse(text), expect)
            return h
        nk = 3 if thorough else 2
        obs.append(Ob(f'c02.ws[{base}]', mk_h(tokens, bounds_, expect),
                      pre=lambda i, j, ki, kj, nb=nb, nk=nk: 0 <= i <= j < nb and 0 <= ki < nk and 0 <= kj < nk and (i != j or ki == kj),
                      witness=[(0, 0, 0, 0), (0, nb - 1, 1, 0), (nb - 1, nb - 1, 1, 1)], timeout=timeout, cost=nb * nb / 3,
                      family='c02.ws', bounds=f'white-space ({nk} kinds: blank, newline' + (', two blanks' if nk == 3 else '') +
                      f') at every single and every pair of the {nb} token boundaries incl. the end; by forking',
                      show=lambda i, j, ki, kj, tokens=tokens, bounds_=bounds_: repr(tok_render(
                          tokens, [bounds_[i]] + ([bounds_[j]] if j != i else []), '=', [KINDS[ki]] + ([KINDS[kj]] if j != i else [])))))

        def mk_lead(tokens, bounds_, expect):
            def h(lead: int, i: int, tail: bool) -> bool:
                ws_at, kk = ([bounds_[i]], [' ']) if i >= 0 else ([], [])
                text = tok_render(tokens, ws_at, LEADS[lead], kk) + (' ' if tail else '')
                XT.XLFormula(text, sheet_name='Sheet1')
                return eq_shape(parse(text), expect)
            return h
        obs.append(Ob(f'c02.lead[{base}]', mk_lead(tokens, bounds_, expect),
                      pre=lambda lead, i, tail, nb=nb: 0 <= lead < len(LEADS) and -1 <= i < nb,
                      witness=[(0, -1, False), (3, 0, True), (4, nb - 1, False)], timeout=timeout, cost=nb,
                      family='c02.ws', bounds=f'{len(LEADS)} spellings of the leading "=" (present/absent, blanks/newline before/after) x one optional blank at each boundary x trailing blank; XLFormula() construction must not raise',
                      show=lambda lead, i, tail, tokens=tokens, bounds_=bounds_: repr(tok_render(tokens, [bounds_[i]] if i >= 0 else [], LEADS[lead], [' '] if i >= 0 else []) + (' ' if tail else ''))))

        def mk_all(tokens, bounds_, expect):
            def h(k: int) -> bool:
                kind = [' ', '\n', ' \n '][k]
                text = tok_render(tokens, list(bounds_), '=', [kind] * len(bounds_))
                return eq_shape(parse(text), expect)
            return h
        obs.append(Ob(f'c02.ws-all[{base}]', mk_all(tokens, bounds_, expect), pre=lambda k: 0 <= k <= 2, witness=[(0,), (1,), (2,)], timeout=timeout, cost=2,
                      family='c02.ws', bounds='white-space at all boundaries at once (blank / newline / mixed)'))
    # leading '@' on function names
    def h_at(a: bool, b: bool) -> bool:
        text = '=' + ('@' if a else '') + 'SUM(A1,' + ('@' if b else '') + 'MAX(B1,2))'
        return eq_shape(parse(text), ('call', 'SUM', (('ref', 'A1'), ('call', 'MAX', (('ref', 'B1'), ('number', '2'))))))
    obs.append(Ob('c02.at-prefix', h_at, witness=[(False, False), (True, True)], timeout=timeout, cost=2, family='c02.ws', bounds='leading @ on outer/inner function name (4 cases by forking)'))
    return obs


# ---------------------------------------------------------------- E. enumerated skeletons with symbolic integer leaves
class Gen:
    """All expression skeletons with at most `n` internal nodes; leaves are numbered holes."""
    OPS = ['+', '-', '*', '/', '^', '&', '=', '<']

    def __init__(self):
        self.cache = {}

    def trees(self, n):
        if n in self.cache:
            return self.cache[n]
        out = []
        if n == 0:
            out = [('leaf',)]
        else:
            for t in self.trees(n - 1):
                out.append(('neg', t))
                out.append(('paren', t))
                out.append(('call', 'ABS', (t,)))
            for k in range(0, n):
                for l in self.trees(k):
                    for r in self.trees(n - 1 - k):
                        out.append(('bin', None, l, r))
                        out.append(('call', 'SUM', (l, r)))
            if n >= 2:
                for a in range(0, n - 1):
                    for b in range(0, n - 1 - a):
                        c = n - 1 - a - b
                        for x in self.trees(a):
                            for y in self.trees(b):
                                for z in self.trees(c):
                                    out.append(('call', 'IF', (x, y, z)))
        self.cache[n] = out
        return out


PREC = {'^': 5, '*': 4, '/': 4, '+': 3, '-': 3, '&': 2, '=': 1, '<': 1}


def instantiate(t, ops, leaves):
    """Fill operator holes / leaf holes (iterators). Returns an abstract tree."""
    k = t[0]
    if k == 'leaf':
        return ('leaf', next(leaves))
    if k in ('neg', 'paren'):
        return (k, instantiate(t[1], ops, leaves))
    if k == 'bin':
        op = next(ops)
        return ('bin', op, instantiate(t[2], ops, leaves), instantiate(t[3], ops, leaves))
    return ('call', t[1], tuple(instantiate(a, ops, leaves) for a in t[2]))


def render_min(t, leafs):
    """Minimal-parentheses rendering of an abstract tree + the expected real-AST shape."""
    k = t[0]
    if k == 'leaf':
        kind, payload = leafs[t[1]]
        return payload, 9, (kind, payload) if kind != 'ref' else ('ref', payload)
    if k == 'neg':
        s, p, e = render_min(t[1], leafs)
        if p < 7:
            s = '(' + s + ')'
        return '-' + s, 7, ('pre', '-', e)
    if k == 'paren':
        s, p, e = render_min(t[1], leafs)
        return '(' + s + ')', 9, e
    if k == 'bin':
        op = t[1]
        ls, lp, le = render_min(t[2], leafs)
        rs, rp, re_ = render_min(t[3], leafs)
        if lp < PREC[op]:
            ls = '(' + ls + ')'
        if rp <= PREC[op]:
            rs = '(' + rs + ')'
        return ls + op + rs, PREC[op], ('bin', op, le, re_)
    parts = [render_min(a, leafs) for a in t[2]]
    return t[1] + '(' + ','.join(p[0] for p in parts) + ')', 9, ('call', t[1], tuple(p[2] for p in parts))


def count_holes(t):
    k = t[0]
    if k == 'leaf':
        return 0, 1
    if k in ('neg', 'paren'):
        return count_holes(t[1])
    if k == 'bin':
        a = count_holes(t[2]); b = count_holes(t[3])
        return 1 + a[0] + b[0], a[1] + b[1]
    o = l = 0
    for x in t[2]:
        a = count_holes(x)
        o += a[0]; l += a[1]
    return o, l


def skeleton_obs(max_nodes, sample, seed, timeout):
    g = Gen()
    rnd = random.Random(seed)
    sk = []
    for n in range(1, max_nodes + 1):
        ts = g.trees(n)
        if sample and len(ts) > sample:
            ts = rnd.sample(ts, sample)
        sk.extend(ts)
    obs = []
    refs = ['A1', '$B$2', 'Sheet2!C3', "'My Sheet'!D4", 'A1:B2']
    for idx, t in enumerate(sk):
        nops, nleaves = count_holes(t)
        ops = [Gen.OPS[(idx + i * 3) % len(Gen.OPS)] for i in range(nops)]
        inst = instantiate(t, iter(ops), iter(range(nleaves)))
        # leaves: alternating symbolic int / reference / text, deterministic per skeleton
        kinds = [['num', 'ref', 'text'][(idx + i) % 3] for i in range(nleaves)]

        def mk_h(inst, kinds, nleaves, idx):
            def h(v: int, w: int) -> bool:
                leafs = []
                for i in range(nleaves):
                    if kinds[i] == 'num':
                        leafs.append(('number', str(v if i % 2 == 0 else w)))
                    elif kinds[i] == 'ref':
                        r = refs[(idx + i) % len(refs)]
                        leafs.append(('ref', r))
                    else:
                        leafs.append(('text', None))
                # text leaves are rendered as quoted literals with a delimiter inside
                rend = []
                for i, (kd, p) in enumerate(leafs):
                    if kd == 'text':
                        rend.append(('text', 'a,b' if i % 2 else ')('))
                    else:
                        rend.append((kd, p))
                text, _, expect = render_min(inst, [(kd, (quote_str(p) if kd == 'text' else p)) for kd, p in rend])
                expect = fix_expect(expect)
                got = parse('=' + text)
                return eq_shape(got, expect)
            return h
        desc = render_min(inst, [({'num': 'number', 'ref': 'ref', 'text': 'text'}[kinds[i]], f'<{kinds[i]}{i}>') for i in range(nleaves)])[0]
        obs.append(Ob(f'c02.skel[{idx}:{desc}]', mk_h(inst, kinds, nleaves, idx), pre=lambda v, w: 0 <= v <= 99 and 0 <= w <= 9, witness=[(12, 3), (0, 0)],
                      timeout=timeout, cost=6, family='c02.skeleton',
                      bounds='skeleton enumerated; numeric leaves v in 0..99, w in 0..9 symbolic (rendered by str()); references and text leaves concrete',
                      show=lambda v, w, desc=desc: f'={desc} with num leaves {v},{w}'))
    return obs


def fix_expect(e):
    """Expected shapes: quoted text literal payloads lose their quotes, quoted sheet names lose theirs."""
    if not isinstance(e, tuple):
        return e
    if e[0] == 'text':
        s = e[1]
        return ('text', s[1:-1].replace('""', '"'))
    if e[0] == 'ref':
        r = e[1]
        if r.startswith("'"):
            i = r.rindex("'!")
            r = r[1:i].replace("''", "'") + r[i + 1:]
        return ('ref', r)
    return tuple(fix_expect(x) for x in e)


def build(tier, seed):
    obs = _build(tier, seed)
    for o in obs:
        if o.pre is not None:
            o.witness = [w for w in o.witness if o.pre(*w)]
    return obs


def _build(tier, seed):
    thorough = tier == 'thorough'
    obs = []
    obs += strlit_obs(4 if thorough else 3, 600 if thorough else 240)
    obs += sheet_obs(3 if thorough else 2, 1, 600 if thorough else 240)
    obs += literal_obs(120)
    obs += ws_obs(300, thorough)
    obs += skeleton_obs(3 if thorough else 2, 0 if thorough else 40, seed, 120)
    return obs
