"""C04 — evaluation always reflects the current inputs (no stale results)."""
import itertools
import random

from vf.ob import Ob
from props.common import *  # noqa
from props.models import MODELS, reset

EXPLANATION = ('For each pre-compiled model (chain, diamond, range consumer, two sheets with defined names) every history skeleton over '
               '{set_cell_value(input i, v), evaluate(cell c)} up to the tier\'s length bound is executed on the real Evaluator with the written '
               'values symbolic; the first operation is fixed per obligation and the remaining ones are chosen by symbolic integers (explored by '
               'forking). After each evaluate, z3 decides equality of the result, of get_cell_value and of the stored cell value with an '
               'independent reference function of the current inputs and with a fresh evaluation on a second compiled copy holding those inputs.')
ASSUMPTIONS = ['P1, P2', 'input values are ints', 'acyclic models without volatile functions']
TRUSTED = ['Python reference functions per model in props/models.py']


def history_obs(mname, length, timeout):
    spec = MODELS[mname]
    M = spec['make']()
    FRESH = spec['make']()
    inputs = spec['inputs']
    fcells = list(spec['formulas'])
    names = spec['names']
    inv_names = {v: k for k, v in names.items()}
    # operation alphabet: ('set', input index, via_name) / ('eval', formula index, via_name)
    ops = []
    for i, a in enumerate(inputs):
        ops.append(('set', a, a))
        if a in inv_names:
            ops.append(('set', a, inv_names[a]))
    for a in fcells:
        ops.append(('eval', a, a))
        if a in inv_names:
            ops.append(('eval', a, inv_names[a]))
    nops = len(ops)

    def run(first, rest, vals):
        reset(M, spec)
        reset(FRESH, spec)
        ev = Evaluator(M)
        cur = {}
        for a, v in zip(inputs, vals[:len(inputs)]):
            ev.set_cell_value(a, v)
            cur[a] = v
        seq = [first] + [concretize(r, 0, nops - 1) for r in rest]
        k = len(inputs)
        for oi in seq:
            kind, addr, spelled = ops[oi]
            if kind == 'set':
                v = vals[k]
                k += 1
                ev.set_cell_value(spelled, v)
                cur[addr] = v
                if not (val(ev.get_cell_value(addr)) == v and val(ev.get_cell_value(spelled)) == v):
                    return False
            else:
                r = ev.evaluate(spelled)
                exp = spec['formulas'][addr](cur)
                if not num_is(r, exp):
                    return False
                if not (val(ev.get_cell_value(addr)) == exp and val(M.cells[addr].value) == exp):
                    return False
                # fresh compiled copy holding the current inputs
                for a, v in cur.items():
                    FRESH.cells[a].value = v
                fr = Evaluator(FRESH).evaluate(addr)
                if not same(fr, r):
                    return False
        return True

    obs = []
    nvals = len(inputs) + length
    for first in range(nops):
        def mk_h(first):
            if length == 3:
                if len(inputs) == 1:
                    def h(o2: int, o3: int, v0: int, w1: int, w2: int, w3: int) -> bool:
                        return run(first, (o2, o3), (v0, w1, w2, w3))
                elif len(inputs) == 2:
                    def h(o2: int, o3: int, v0: int, v1: int, w1: int, w2: int, w3: int) -> bool:
                        return run(first, (o2, o3), (v0, v1, w1, w2, w3))
                else:
                    def h(o2: int, o3: int, v0: int, v1: int, v2: int, v3: int, w1: int, w2: int, w3: int) -> bool:
                        return run(first, (o2, o3), (v0, v1, v2, v3, w1, w2, w3))
                return h, 2
            if len(inputs) == 1:
                def h(o2: int, o3: int, o4: int, v0: int, w1: int, w2: int, w3: int, w4: int) -> bool:
                    return run(first, (o2, o3, o4), (v0, w1, w2, w3, w4))
            elif len(inputs) == 2:
                def h(o2: int, o3: int, o4: int, v0: int, v1: int, w1: int, w2: int, w3: int, w4: int) -> bool:
                    return run(first, (o2, o3, o4), (v0, v1, w1, w2, w3, w4))
            else:
                def h(o2: int, o3: int, o4: int, v0: int, v1: int, v2: int, v3: int, w1: int, w2: int, w3: int, w4: int) -> bool:
                    return run(first, (o2, o3, o4), (v0, v1, v2, v3, w1, w2, w3, w4))
            return h, 3
        h, nrest = mk_h(first)

        def mk_pre(nrest):
            def pre(*a):
                for r in a[:nrest]:
                    if not (0 <= r < nops):
                        return False
                return True
            return pre

        def show(*a, first=first, nrest=nrest):
            seq = [first] + list(a[:nrest])
            vals = list(a[nrest:])
            out = ['init ' + ', '.join(f'{x}={v}' for x, v in zip(inputs, vals))]
            k = len(inputs)
            for oi in seq:
                kind, addr, sp = ops[oi]
                if kind == 'set':
                    out.append(f'set {sp}={vals[k]}')
                    k += 1
                else:
                    out.append(f'evaluate {sp}')
            return '; '.join(out)
        last_eval = max(i for i, o in enumerate(ops) if o[0] == 'eval')
        wit = [tuple([last_eval] * nrest) + tuple(range(3, 3 + nvals)), tuple([0] * (nrest - 1) + [last_eval]) + tuple(range(-2, -2 + nvals))]
        obs.append(Ob(f'c04.history[{mname},len {length},first {ops[first][0]} {ops[first][2]}]', h, pre=mk_pre(nrest), witness=wit, timeout=timeout,
                      cost=(nops ** nrest) / 12, family=f'c04.history.{mname}',
                      bounds=f'model {mname}: all histories of length {length} over {nops} operations (set of each input, also through its defined name; '
                             f'evaluate of each formula cell, also through its defined name), first operation fixed, the others by forking ({nops ** nrest} histories); '
                             'initial inputs and every written value: all ints',
                      show=show))
    return obs


def build(tier, seed):
    thorough = tier == 'thorough'
    obs = []
    for mname in MODELS:
        obs += history_obs(mname, 4 if thorough else 3, 900 if thorough else 300)
    return obs
