"""C04 — evaluation always reflects the current inputs (no stale results)."""
import itertools
import random

from vf.ob import Ob
from props.common import *  # noqa
from props.models import MODELS, reset

EXPLANATION = ('For each pre-compiled model (chain, diamond, range consumer, two sheets with defined names) every history skeleton over '
               '{set_cell_value(input i, v), evaluate(cell c)} up to the tier\'s length bound is executed on the real Evaluator with the written '
               'values symbolic; the first operation is fixed per obligation and the remaining ones are chosen by symbolic integers (explored by '
               'forking). After each evaluate, z3 decides equality of the result, of get_cell_value and of the stored cell value with an '
               'independent reference function of the current inputs and with a fresh evaluation on a second compiled copy holding those inputs.')
ASSUMPTIONS = ['P1, P2', 'input values are ints', 'acyclic models without volatile functions']
TRUSTED = ['Python reference functions per model in props/models.py']


def history_obs(mname, length, timeout):
    from typing import Union
    spec = MODELS[mname]
    M = spec['make']()
    FRESH = spec['make']()
    inputs = spec['inputs']
    absent = spec.get('absent', [])
    typed = spec.get('typed', False)
    VT = Union[int, bool] if typed else int
    init_inputs = [a for a in inputs if a not in absent]
    fcells = list(spec['formulas'])
    names = spec['names']
    inv_names = {v: k for k, v in names.items()}
    # operation alphabet: ('set', input, spelling) / ('eval', formula cell, spelling)
    ops = []
    for i, a in enumerate(inputs):
        ops.append(('set', a, a))
        if a in inv_names:
            ops.append(('set', a, inv_names[a]))
    for a in fcells:
        ops.append(('eval', a, a))
        if a in inv_names:
            ops.append(('eval', a, inv_names[a]))
    nops = len(ops)
    nrest = length - 1
    n_init = len(init_inputs)

    def matches(r, exp):
        if isinstance(exp, bool):
            return val(r) is exp or bool_is(r, exp)
        if isinstance(exp, str):
            return text_is(r, exp) or (isinstance(r, str) and r == exp)
        return num_is(r, exp)

    def run(first, rest, vals, two=False):
        reset(M, spec)
        reset(FRESH, spec)
        ev = Evaluator(M)
        # the inputs may be changed through a second evaluator sharing the model: the first one must still see them
        ev_set = Evaluator(M) if two else ev
        cur = {}
        for a, v in zip(init_inputs, vals[:n_init]):
            ev.set_cell_value(a, v)
            cur[a] = v
        seq = [first] + [concretize(r, 0, nops - 1) for r in rest]
        k = n_init
        for oi in seq:
            kind, addr, spelled = ops[oi]
            if kind == 'set':
                v = vals[k]
                k += 1
                ev_set.set_cell_value(spelled, v)
                cur[addr] = v
                g1, g2 = ev.get_cell_value(addr), ev.get_cell_value(spelled)
                if not (val(g1) == v and val(g2) == v):
                    return False
                if typed and (isinstance(val(g1), bool) != isinstance(v, bool)):
                    return False          # the value last set, not merely one that compares equal to it
            else:
                r = ev.evaluate(spelled)
                exp = spec['formulas'][addr](cur)
                if not matches(r, exp):
                    return False
                if not (matches(ev.get_cell_value(addr), exp) and matches(M.cells[addr].value, exp)):
                    return False
                # fresh compiled copy holding the current inputs
                for a, v in cur.items():
                    Evaluator(FRESH).set_cell_value(a, v) if a not in FRESH.cells else setv(FRESH, a, v)
                fr = Evaluator(FRESH).evaluate(addr)
                if not matches(fr, exp):
                    return False
        return True

    obs = []
    nvals = n_init + length

    def in_range(v):
        return isinstance(v, bool) or -9 <= v <= 9
    for first in range(nops):
        params = [(f'o{i + 2}', int) for i in range(nrest)] + [(f'v{i}', int) for i in range(n_init)] + [(f'w{i + 1}', VT) for i in range(length)] + [('two', bool)]

        def mk_body(first):
            def body(*a):
                return run(first, a[:nrest], a[nrest:-1], True if a[-1] else False)
            return body
        h = make_fn(mk_body(first), params, name=f'history_{mname}_{first}')

        def pre(*a):
            for r in a[:nrest]:
                if not (0 <= r < nops):
                    return False
            if typed:
                if a[-1]:
                    return False          # the typed model is run with one evaluator only (path budget)
                for v in a[nrest:-1]:
                    if not in_range(v):
                        return False
            return True

        def show(*a, first=first):
            seq = [first] + list(a[:nrest])
            vals = list(a[nrest:-1])
            out = [('[sets through a second evaluator] ' if a[-1] else '') + 'init ' + ', '.join(f'{x}={v!r}' for x, v in zip(init_inputs, vals))]
            k = n_init
            for oi in seq:
                kind, addr, sp = ops[oi % nops]
                if kind == 'set':
                    out.append(f'set {sp}={vals[k]!r}')
                    k += 1
                else:
                    out.append(f'evaluate {sp}')
            return '; '.join(out)
        last_eval = max(i for i, o in enumerate(ops) if o[0] == 'eval')
        wit = [tuple([last_eval] * nrest) + tuple(range(3, 3 + nvals)) + (False,), tuple([0] * (nrest - 1) + [last_eval]) + tuple(range(-2, -2 + nvals)) + (not typed,)]
        if typed:
            wit.append(tuple([last_eval, 0][:nrest] + [last_eval] * max(0, nrest - 2)) + (1,) + tuple([True] * length) + (False,))
        obs.append(Ob(f'c04.history[{mname},len {length},first {ops[first][0]} {ops[first][2]}]', h, pre=pre, witness=wit, timeout=timeout,
                      cost=(nops ** nrest) / 12 * (3 if typed else 1), family=f'c04.history.{mname}',
                      bounds=f'model {mname}: all histories of length {length} over {nops} operations (set of each input, also through its defined name; '
                             f'evaluate of each formula cell, also through its defined name), first operation fixed, the others by forking ({nops ** nrest} histories), sets through the same or through a second evaluator over the same model (forked); '
                             + ('initial inputs and every written value: int in -9..9 or bool (type forked); type-sensitive dependants ISNUMBER / & / IF' if typed else
                                'initial inputs and every written value: all ints')
                             + (f'; the cells {absent} do not exist in the model until a history sets them' if absent else ''),
                      show=show))
    return obs


def build(tier, seed):
    thorough = tier == 'thorough'
    obs = []
    for mname in MODELS:
        if 'C04' in MODELS[mname].get('skip', ()):
            continue
        # the typed model forks on the type of every written value as well: length 3 in both tiers (length 4 does not finish)
        obs += history_obs(mname, 4 if thorough and not MODELS[mname].get('typed') else 3, 1800 if thorough else 900)
    return obs
