"""C11 — a workbook loads into a model with the same cells and formulas (adapter layer; file decoding not applicable)."""
from typing import Union

import openpyxl
from openpyxl.workbook.defined_name import DefinedName

from vf.ob import Ob
from props.common import *  # noqa
from xlcalculator import reader as RD, patch as PT, ModelCompiler

EXPLANATION = ('Reader.read_cells / read_defined_names and ModelCompiler.parse_archive / build_defined_names / link_cells_to_defined_names / build_ranges / build_code run on an '
               'in-memory openpyxl Workbook whose cells are real xlcalculator.patch.Cell objects (constants, formulas with cached values, three sheets incl. a name that needs quotes, '
               'a defined name for a cell and one for a range); the constant payloads, the cached values and the ignore flag of each sheet are symbolic. z3 decides on every path '
               'that the model has exactly the non-ignored cells with their values / formula texts / cached results, and evaluates like a model built directly from the same contents.')
ASSUMPTIONS = ['P1, P2', 'NOT applicable: the zip container, XML parsing, the shared-string table, shared-formula translation and openpyxl.load_workbook itself (file I/O and third-party decoding: '
               'no symbolic input survives that boundary); the workbook object is built in memory by the harness']
TRUSTED = ['in-memory workbook construction in props/c11.py']

CV = Union[int, str, bool]


def make_book():
    wb = openpyxl.Workbook()
    wb.remove(wb.active)
    sheets = {}
    for nm in ('Data', 'My Sheet', 'Skip', 'Skip2'):
        sheets[nm] = wb.create_sheet(nm)

    def put(sheet, row, col, value, dtype, cvalue=None):
        c = PT.Cell(sheets[sheet], row=row, column=col)
        c._value = value
        c.data_type = dtype
        if dtype == 'f':
            c.cvalue = cvalue
        sheets[sheet]._cells[(row, col)] = c
        return c
    cells = {
        'Data!A1': put('Data', 1, 1, 1, 'n'), 'Data!A2': put('Data', 2, 1, 2, 'n'), 'Data!A3': put('Data', 3, 1, 'x', 's'),
        'Data!B1': put('Data', 1, 2, '=A1+A2', 'f', 3), 'Data!B2': put('Data', 2, 2, '=SUM($A$1:$A$2)', 'f', 3),
        'My Sheet!A1': put('My Sheet', 1, 1, '=Data!B1*2', 'f', 6), 'My Sheet!A2': put('My Sheet', 2, 1, '=SUM(rng)+total', 'f', 6),
        'My Sheet!B1': put('My Sheet', 1, 2, 5, 'n'), 'My Sheet!B2': put('My Sheet', 2, 2, '=B1+1', 'f', 6),
        'Skip!A1': put('Skip', 1, 1, 99, 'n'), 'Skip!B1': put('Skip', 1, 2, '=A1', 'f', 99),
        # a stored but empty (formatted) input cell that is the target of a defined name
        'Data!C1': put('Data', 1, 3, None, 'n'), 'Data!C2': put('Data', 2, 3, '=inp*2+A2', 'f', 0),
        # a kept sheet whose name extends the name of an ignored sheet, with a defined name on it
        'Skip2!A1': put('Skip2', 1, 1, 7, 'n'), 'Skip2!B1': put('Skip2', 1, 2, '=rate2*3', 'f', 21),
        # the range of a defined name also written out directly; a name on a sheet whose name needs quotes; a named range that
        # covers cells that are not stored; a named range on a sheet that may be ignored
        'Data!B3': put('Data', 3, 2, '=SUM(A1:A2)+SUM(rng)', 'f', 6),
        'My Sheet!B3': put('My Sheet', 3, 2, '=kq*2+SUM(qr)', 'f', 0),
        'Data!B4': put('Data', 4, 2, '=SUM(wide)+COUNT(wide)', 'f', 0), 'Data!D1': put('Data', 1, 4, 1, 'n'), 'Data!D2': put('Data', 2, 4, 2, 'n'),
        'Skip!C1': put('Skip', 1, 3, '=SUM(skr)', 'f', 0),
        # a formula of a kept sheet that uses a name living on the ignorable sheet (evaluated only when that sheet is kept);
        # formulas without any reference, whose cached result need not be their value (a stale cache, or a writer that stores 0)
        'Data!B5': put('Data', 5, 2, '=sk1+A1', 'f', 0),
        'Data!B6': put('Data', 6, 2, '=2*3+1', 'f', 7), 'Data!B7': put('Data', 7, 2, '=B6*2+ROUND(7/2,0)', 'f', 0),
    }
    wb.defined_names['sk1'] = DefinedName('sk1', attr_text='Skip!$A$1')
    wb.defined_names['kq'] = DefinedName('kq', attr_text="'My Sheet'!$B$1")
    wb.defined_names['qr'] = DefinedName('qr', attr_text="'My Sheet'!$B$1:$B$2")
    wb.defined_names['wide'] = DefinedName('wide', attr_text='Data!$D$1:$D$6')
    wb.defined_names['skr'] = DefinedName('skr', attr_text='Skip!$A$1:$B$1')
    wb.defined_names['total'] = DefinedName('total', attr_text='Data!$B$1')
    wb.defined_names['rng'] = DefinedName('rng', attr_text='Data!$A$1:$A$2')
    wb.defined_names['inp'] = DefinedName('inp', attr_text='Data!$C$1')
    wb.defined_names['rate2'] = DefinedName('rate2', attr_text='Skip2!$A$1')
    return wb, cells


def build(tier, seed):
    obs = []
    WB, CELLS = make_book()

    def load(ignore):
        rd = RD.Reader('in-memory')
        rd.book = WB
        mc = ModelCompiler()
        mc.parse_archive(rd, ignore_sheets=ignore)
        mc.model.build_code()
        return mc.model

    def setup(a, b, t, cached, cached2, k, ig_skip, ig_my):
        CELLS['Data!A1']._value = a
        CELLS['Data!A2']._value = b
        CELLS['Data!D1']._value = a
        CELLS['Data!D2']._value = b
        CELLS['Data!A3']._value = t
        CELLS['Data!A3'].data_type = 'b' if isinstance(t, bool) else ('n' if isinstance(t, int) else 's')
        CELLS['Data!B1'].cvalue = cached
        CELLS['My Sheet!A1'].cvalue = cached2
        CELLS['My Sheet!B1']._value = k
        CELLS['Skip2!A1']._value = cached
        CELLS['Data!B6'].cvalue = cached
        CELLS['Data!B7'].cvalue = k
        return (['Skip'] if ig_skip else []) + (['My Sheet'] if ig_my else [])

    def h_cells(a, b, t, cached, cached2, k, ig_skip, ig_my):
        """the model has exactly the stored cells of the sheets that are not ignored, with constants (typed), formula texts, cached results; names bound"""
        m = load(setup(a, b, t, cached, cached2, k, ig_skip, ig_my))
        expected = [x for x in CELLS if not (x.startswith('Skip!') and ig_skip) and not (x.startswith('My Sheet!') and ig_my)]
        if sorted(m.cells.keys()) != sorted(expected):
            return False
        t_got = m.cells['Data!A3'].value
        if not (m.cells['Data!A1'].value == a and m.cells['Data!A2'].value == b and t_got == t and isinstance(t_got, bool) == isinstance(t, bool)):
            return False
        if not (m.cells['Data!B1'].formula.formula == '=A1+A2' and m.get_cell_value('Data!B1') == cached and m.cells['Data!A1'].formula is None):
            return False
        if not ig_my:
            c2 = m.get_cell_value('My Sheet!A1')
            if not (c2 == cached2 and isinstance(c2, bool) == isinstance(cached2, bool) and m.cells['My Sheet!A1'].formula.formula == '=Data!B1*2' and m.cells['My Sheet!B1'].value == k):
                return False
            if 'kq' not in m.defined_names or 'qr' not in m.defined_names:
                return False
        if not ig_skip:
            if not (m.cells['Skip!A1'].value == 99 and m.get_cell_value('Skip!B1') == 99):
                return False
        for nm in ('total', 'rng', 'inp', 'rate2', 'wide'):
            if nm not in m.defined_names:
                return False
        return 'Data!C1' in m.cells and m.cells['Skip2!A1'].value == cached

    def h_eval(a, b, cached, k, ig_skip, ig_my):
        """evaluating the loaded model: formulas, cross-sheet references, names for cells and ranges (also written out directly, over unstored cells, on the quoted sheet)"""
        m = load(setup(a, b, 'x', cached, 6, k, ig_skip, ig_my))
        # the same workbook loaded again with other sheets ignored (names dropped or kept) must not reach into the first model
        load((['My Sheet'] if not ig_my else []) + (['Skip'] if not ig_skip else []))
        # cached results are what get_cell_value shows before evaluation, never what evaluation returns
        if not (m.get_cell_value('Data!B6') == cached and m.get_cell_value('Data!B7') == k):
            return False
        ev = Evaluator(m)
        if not (num_is(ev.evaluate('Data!B6'), 7) and num_is(ev.evaluate('Data!B7'), 18) and num_is(m.get_cell_value('Data!B6'), 7)):
            return False
        if not ig_skip and not num_is(ev.evaluate('Data!B5'), 99 + a):
            return False
        if not (num_is(ev.evaluate('Data!B1'), a + b) and num_is(ev.evaluate('Data!B2'), a + b) and num_is(ev.evaluate('total'), a + b)):
            return False
        if not num_is(ev.evaluate('Data!B3'), 2 * (a + b)):
            return False
        if not num_is(ev.evaluate('Data!B4'), a + b + 2):
            return False
        if not ig_my:
            if not (num_is(ev.evaluate('My Sheet!A1'), 2 * (a + b)) and num_is(ev.evaluate('My Sheet!A2'), 2 * (a + b)) and num_is(ev.evaluate('My Sheet!B2'), k + 1)):
                return False
            if not (num_is(ev.evaluate('kq'), k) and num_is(ev.evaluate('My Sheet!B3'), 2 * k + k + k + 1)):
                return False
        if not ig_skip:
            if not (num_is(ev.evaluate('Skip!B1'), 99) and num_is(ev.evaluate('Skip!C1'), 198)):
                return False
        # the empty stored cell exists, its name is bound, a value set through the name reaches it
        if not num_is(ev.evaluate('Data!C2'), b):
            return False
        ev.set_cell_value('inp', k)
        if not (m.cells['Data!C1'].value == k and num_is(ev.evaluate('Data!C2'), 2 * k + b)):
            return False
        # Skip2 is never ignored (only 'Skip' is): its cells and its defined name are there
        return num_is(ev.evaluate('Skip2!B1'), 3 * cached) and num_is(ev.evaluate('rate2'), cached)

    def h_dict(a, b, k, ig_skip, ig_my):
        """a model built directly from the same contents evaluates alike"""
        m = load(setup(a, b, 'x', 3, 6, k, ig_skip, ig_my))
        d = {'Data!A1': a, 'Data!A2': b, 'Data!A3': 'x', 'Data!B1': '=A1+A2', 'Data!B2': '=SUM($A$1:$A$2)'}
        if not ig_my:
            d.update({'My Sheet!A1': '=Data!B1*2', 'My Sheet!B1': k, 'My Sheet!B2': '=B1+1'})
        md = ModelCompiler().read_and_parse_dict(d, default_sheet='Data')
        ed, el = Evaluator(md), Evaluator(m)
        for addr in ('Data!B1', 'Data!B2') + (() if ig_my else ('My Sheet!A1', 'My Sheet!B2')):
            if not same(ed.evaluate(addr), el.evaluate(addr)):
                return False
        return True
    for ig_s in (False, True):
        for ig_m in (False, True):
            def mk(ig_s, ig_m):
                def hc(a: int, b: int, t: CV, cached: int, cached2: CV, k: int) -> bool:
                    return h_cells(a, b, t, cached, cached2, k, ig_s, ig_m)

                def he(a: int, b: int, cached: int, k: int) -> bool:
                    return h_eval(a, b, cached, k, ig_s, ig_m)

                def hd(a: int, b: int, k: int) -> bool:
                    return h_dict(a, b, k, ig_s, ig_m)
                return hc, he, hd
            hc, he, hd = mk(ig_s, ig_m)
            label = 'ignore ' + ('+'.join([n for n, f in (('Skip', ig_s), ('My Sheet', ig_m)) if f]) or 'nothing')
            book = ('4 sheets (Data, "My Sheet", Skip, Skip2 - never ignored, its name extends Skip), 24 stored cells incl. an empty stored cell that is the target of a defined name, names for a cell and a '
                    'range of the quoted sheet, a named range also written out directly, a named range covering cells that are not stored, a named range and a named cell on the ignorable sheet (the latter used by a formula of a kept sheet), reference-free formulas with arbitrary cached results; the workbook is loaded a second time with the complementary ignore list before the first model is used; ' + label)
            obs.append(Ob(f'c11.adapter[cells, {label}]', hc,
                          pre=lambda a, b, t, cached, cached2, k: (not isinstance(t, str) or len(t) <= 2) and (not isinstance(cached2, str) or len(cached2) <= 2),
                          witness=[(1, 2, 'x', 3, 6, 5), (4, -4, True, 0, 'ab', 0), (0, 0, 7, 1, False, 1)], timeout=600, cost=60, family='c11.adapter',
                          bounds=book + '; constants a, b, k (all ints), t over int / text(<=2) / bool, cached results (int; int/text/bool): exactly the stored cells of the kept sheets, typed constants, formula texts, cached results before evaluation, names bound',
                          show=lambda *a: f'a={a[0]} b={a[1]} t={a[2]!r} cached={a[3]} cached2={a[4]!r} k={a[5]}'))
            obs.append(Ob(f'c11.adapter[evaluate, {label}]', he, witness=[(1, 2, 3, 5), (4, -4, 0, 0)], timeout=600, cost=60, family='c11.adapter',
                          bounds=book + '; a, b, cached, k: all ints: every formula of the kept sheets and every defined name evaluates to its reference value; a value set through a name reaches the cell',
                          show=lambda *a: f'a={a[0]} b={a[1]} cached={a[2]} k={a[3]}'))
            obs.append(Ob(f'c11.adapter[same as dict model, {label}]', hd, witness=[(1, 2, 5), (4, -4, 0)], timeout=600, cost=30, family='c11.adapter',
                          bounds=book + '; a, b, k: all ints: evaluates like a model built by read_and_parse_dict from the same contents', show=lambda *a: f'a={a[0]} b={a[1]} k={a[2]}'))
    # ---------------- patch.WorksheetReader.bind_cells: parsed cell records -> worksheet cells (value, data type, cached value of formulas)
    BWB = openpyxl.Workbook()          # built once, outside the traced code; every path starts from an empty sheet
    BWS = BWB.active
    BWS.title = 'S'

    def h_bind(v: CV, k: int, cached: CV, r: int, c: int) -> bool:
        r, c = concretize(r, 1, 3), concretize(c, 1, 3)
        wb, ws = BWB, BWS
        ws._cells.clear()
        ws._current_row = 0
        dt = 'b' if isinstance(v, bool) else ('n' if isinstance(v, int) else 's')
        recs = [(r, [{'row': r, 'column': c, 'value': v, 'data_type': dt, 'style_id': 0},
                     {'row': r, 'column': c + 1, 'value': None, 'data_type': 'n', 'style_id': 0}]),
                (r + 2, [{'row': r + 2, 'column': c, 'value': '=A1+1', 'data_type': 'f', 'style_id': 0, 'cvalue': cached},
                         {'row': r + 2, 'column': c + 2, 'value': k, 'data_type': 'n', 'style_id': 0}])]

        class Parser:
            def parse(self):
                return iter(recs)
        rd = PT.WorksheetReader.__new__(PT.WorksheetReader)
        rd.ws, rd.parser, rd.tables = ws, Parser(), []
        rd.bind_cells()
        want = {(r, c): (v, dt), (r, c + 1): (None, 'n'), (r + 2, c): ('=A1+1', 'f'), (r + 2, c + 2): (k, 'n')}
        if sorted(ws._cells.keys()) != sorted(want.keys()):
            return False
        for key, (val_, dt_) in want.items():
            cell = ws._cells[key]
            if not (isinstance(cell, PT.Cell) and cell.data_type == dt_ and (cell._value is val_ or cell._value == val_) and isinstance(cell._value, bool) == isinstance(val_, bool)):
                return False
        fc = ws._cells[(r + 2, c)]
        if not (fc.cvalue == cached and isinstance(fc.cvalue, bool) == isinstance(cached, bool)):
            return False
        if ws._current_row != r + 2:
            return False
        # ... and on through the reader: one model cell per bound cell, formula text and cached result kept apart
        rdr = RD.Reader('in-memory')
        rdr.book = wb
        cells, formulae, _ = rdr.read_cells()
        col = 'ABCDE'
        a_f, a_v, a_k = f'S!{col[c - 1]}{r + 2}', f'S!{col[c - 1]}{r}', f'S!{col[c + 1]}{r + 2}'
        if sorted(cells.keys()) != sorted([a_f, a_v, a_k, f'S!{col[c]}{r}']):
            return False
        return (cells[a_f].formula.formula == '=A1+1' and cells[a_f].value == cached and a_f in formulae and cells[a_v].value == v and cells[a_v].formula is None
                and cells[a_k].value == k and cells[f'S!{col[c]}{r}'].value is None)
    obs.append(Ob('c11.patch[bind_cells -> read_cells]', h_bind,
                  pre=lambda v, k, cached, r, c: 1 <= r <= 3 and 1 <= c <= 3 and (not isinstance(v, str) or len(v) <= 2) and (not isinstance(cached, str) or len(cached) <= 2),
                  witness=[(5, 7, 6, 1, 1), ('ab', 0, 'x', 2, 3), (True, -1, False, 3, 2)], timeout=600, cost=40, family='c11.patch',
                  bounds='parsed cell records (a constant over int / text(<=2) / bool, a stored empty cell, a formula with a cached result over int / text / bool, a number) at every offset r, c in 1..3 (forked): '
                         'bind_cells creates one patch.Cell per record with value, data type and - for formulas - the cached value; read_cells turns them into exactly those model cells',
                  show=lambda v, k, cached, r, c: f'v={v!r} k={k} cached={cached!r} at row {r}, column {c}'))
    return obs
