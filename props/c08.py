"""C08 — functions coerce arguments the Excel way, however the value is spelt."""
import inspect

import numpy

from vf.ob import Ob, TOTAL
from props.common import *  # noqa
from props.c07 import sample_for, EXEMPT
from xlcalculator.xlfunctions import operator as OPS

EXPLANATION = ('The cast layer (Number.cast / Text.cast / Boolean.cast / validate_args) is executed on symbolic ints, digit strings, booleans and blanks; every registered '
               'function with numeric scalar parameters (enumerated from the live registry) is called with each spelling of the same symbolic value (int, float, Number '
               'object, numeric text, Text object, numpy scalars) at each numeric position and z3 decides that all spellings give the same result; arithmetic coercion identities; '
               'function-name dispatch (letter case by forking, _xlfn. prefix) and user-registered functions.')
ASSUMPTIONS = ['P1, P2, P2b, P6', 'numeric sample values 1..3 (function bodies cross the C boundary of numpy/libm: CrossHair realises the value, so the range is small and forked)',
               'numeric text rendered by str() of ints in -999..999; digit strings up to length 3']
TRUSTED = ['sample-argument table (props/c07.py sample_for)']


def nval(r):
    if isinstance(r, T.Number):
        return r.value
    if isinstance(r, (int, float)) and not isinstance(r, bool):
        return r
    return None


def same_result(a, b):
    if isinstance(a, XE.ExcelError) or isinstance(b, XE.ExcelError):
        return isinstance(a, XE.ExcelError) and isinstance(b, XE.ExcelError) and a.value == b.value
    va, vb = val(a), val(b)
    if isinstance(va, float) or isinstance(vb, float):
        try:
            return abs(va - vb) <= 1e-9 * (1 + abs(vb))
        except TypeError:
            return False
    if hasattr(va, 'year') or hasattr(vb, 'year'):
        return va == vb
    return type(va) is type(vb) and va == vb or (nval(a) is not None and nval(a) == nval(b))


def build(tier, seed):
    obs = []
    TO = 200

    def add(name, fn, pre, wit, bounds, cost=5, show=None, timeout=None, fam=None):
        obs.append(Ob(f'c08.{name}', fn, pre=pre, witness=wit, timeout=timeout or TO, cost=cost, family='c08.' + (fam or name.split('[')[0]), bounds=bounds, show=show))

    # ---------------- 1. cast layer
    def h_num_cast(n: int) -> bool:
        return (nval(T.Number.cast(n)) == n and nval(T.Number.cast(T.Number(n))) == n and nval(T.Number.cast(str(n))) == n and nval(T.Number.cast(T.Text(str(n)))) == n
                and nval(xl._validate(T.XlNumber, str(n), 'p')) == n and nval(xl._validate(T.XlNumber, n, 'p')) == n)
    add('cast[number spellings]', h_num_cast, lambda n: -999 <= n <= 999, [(12,), (-3,), (0,)], 'n in -999..999 as int, Number, numeric text, Text object: Number.cast and validate_args(XlNumber) give n', 10)

    def h_digits(s: str) -> bool:
        for ch in s:
            if not ('0' <= ch <= '9'):
                return True
        return nval(T.Number.cast(s)) == int(s)
    add('cast[digit strings]', h_digits, lambda s: 1 <= len(s) <= 3, [('12',), ('007',)], 'every digit string of length 1..3 (incl. leading zeros): Number.cast(s) = int(s)', 10)

    def h_bool_blank(b: bool) -> bool:
        return (nval(T.Number.cast(b)) == (1 if b else 0) and nval(T.Number.cast(T.Boolean(b))) == (1 if b else 0) and nval(T.Number.cast(None)) == 0
                and nval(T.Number.cast(T.BLANK)) == 0 and val(T.Boolean.cast(1 if b else 0)) is b and val(T.Boolean.cast(None)) is False
                and val(T.Text.cast(None)) == '' and val(T.Boolean.cast('true' if b else 'FALSE')) is b)
    add('cast[boolean blank]', h_bool_blank, None, [(True,), (False,)], 'TRUE = 1, FALSE = 0, blank = 0 / "" / FALSE', 2)

    def h_nonnumeric(s: str) -> bool:
        o = ord(s[0])
        if not ((65 <= o <= 90) or (97 <= o <= 122)) or o in (84, 116, 70, 102):     # starts with a letter other than t/f (TRUE/FALSE)
            return True
        try:
            T.Number.cast(s)
        except XE.ValueExcelError:
            r = F['ABS'](s)
            r2 = F['ROUND'](1, s)
            r3 = OPS.OP_ADD(cast_native(s), cast_native(1))
            return is_err(r, XE.ValueExcelError) and is_err(r2, XE.ValueExcelError) and is_err(r3, XE.ValueExcelError)
        return False
    from props.c07 import dateutil_stub, DP

    def h_nonnum2(s: str, dp: bool) -> bool:
        DP[0] = False          # the text is not a date either
        return h_nonnumeric(s)
    obs.append(Ob('c08.cast[non-numeric text]', h_nonnum2, pre=lambda s, dp: 1 <= len(s) <= 2 and all(c in 'abxzAQ-1 ' for c in s), witness=[('ab', False), ('x', False), ('a1', False)], timeout=600, cost=60,
                  family='c08.cast', ctx=dateutil_stub, stubs=['P4 dateutil.parser.parse: text is not a date'],
                  bounds='text of length 1..2 over the alphabet "abxzAQ-1 " starting with a letter and that is not a date: #VALUE! from the cast, from a numeric parameter and from arithmetic'))

    def h_text_cast(n: int, b: bool) -> bool:
        return (val(T.Text.cast(n)) == str(n) and val(T.Text.cast(T.Number(n))) == str(n) and val(T.Text.cast(b)) == val(T.Text.cast(T.Boolean(b)))
                and val(T.Text.cast(b)).upper() == ('TRUE' if b else 'FALSE') and val(F['LEN'](n)) == len(str(n)) and val(F['CONCAT'](n, b)) == str(n) + val(T.Text.cast(b)))
    add('cast[text parameters]', h_text_cast, lambda n, b: -999 <= n <= 999, [(12, True), (-3, False)], 'text parameters accept numbers and booleans by their text form (n in -999..999)', 10)

    DEC_TEXTS = [('.5', 0.5), ('-.5', -0.5), ('+.5', 0.5), ('5.', 5.0), ('-5.', -5.0), ('0.5', 0.5), ('.5e1', 5.0), ('1e-1', 0.1), ('1.5E1', 15.0), (' 1.5', 1.5), ('1.5 ', 1.5),
                 ('00.50', 0.5), ('-0.0', 0.0), ('1_0', None), ('nan', None), ('inf', None), ('-Infinity', None), ('1e400', None), ('\uff11\uff12', None), ('1..5', None), ('.', None), ('e1', None), ('--1', None)]

    def h_dec_text(i: int, k: int, dp: bool) -> bool:
        DP[0] = False
        i = concretize(i, 0, len(DEC_TEXTS) - 1)
        t, v = DEC_TEXTS[i]
        r1, r2, r3, r4 = F['ABS'](t), F['ABS'](T.Text(t)), OPS.OP_MUL(T.Text(t), T.Number(k)), OPS.OP_ADD(T.Number(k), T.Text(t))
        if v is None:
            return is_err(r1, XE.ValueExcelError) and is_err(r2, XE.ValueExcelError) and is_err(r3, XE.ValueExcelError) and is_err(r4, XE.ValueExcelError)
        return num_is(r1, abs(v)) and num_is(r2, abs(v)) and num_is(r3, v * k) and num_is(r4, k + v)
    obs.append(Ob('c08.cast[decimal text]', h_dec_text, pre=lambda i, k, dp: 0 <= i < len(DEC_TEXTS) and -1000 <= k <= 1000, witness=[(0, 4, False), (3, -2, False), (13, 1, False)], timeout=300, cost=20,
                  family='c08.cast', ctx=dateutil_stub, stubs=['P4 dateutil.parser.parse: text is not a date'],
                  bounds=f'numeric text without integer or fraction digits, exponents, surrounding blanks ({[t for t, v in DEC_TEXTS if v is not None]}) and near misses ({[t for t, v in DEC_TEXTS if v is None]}) (forked) '
                         'as a numeric argument and as an operand of * and + with every int k in -1000..1000: the value of the text, resp. #VALUE!',
                  show=lambda i, k, dp: f'text {DEC_TEXTS[i % len(DEC_TEXTS)][0]!r} with k={k}'))

    NATIVES = [1, True, 0, False, '1', 'True', 1.0]

    def h_history(i: int, j: int) -> bool:
        # the text / number / boolean form of a native value does not depend on which equal-looking value was converted before
        i, j = concretize(i, 0, len(NATIVES) - 1), concretize(j, 0, len(NATIVES) - 1)
        x, y = NATIVES[i], NATIVES[j]

        def forms(v):
            return (val(T.Text.cast(v)), val(F['LEN'](v)), val(F['CONCAT'](v, 'x')), nval(T.Number.cast(v)), type(T.ExcelType.cast_from_native(v)).__name__)
        alone = {0: ('1', 1, '1x', 1, 'Number'), 1: ('True', 4, 'Truex', 1, 'Boolean'), 2: ('0', 1, '0x', 0, 'Number'), 3: ('False', 5, 'Falsex', 0, 'Boolean'),
                 4: ('1', 1, '1x', 1, 'Text'), 5: ('True', 4, 'Truex', None, 'Text'), 6: ('1.0', 3, '1.0x', 1, 'Number')}
        forms(x)
        got = forms(y)
        exp = alone[j]
        return got[0] == exp[0] and got[1] == exp[1] and got[2] == exp[2] and (exp[3] is None or got[3] == exp[3]) and got[4] == exp[4]
    add('cast[history independence]', h_history, lambda i, j: 0 <= i < len(NATIVES) and 0 <= j < len(NATIVES), [(0, 1), (1, 0), (3, 2)],
        f'all ordered pairs of the native values {NATIVES} (forked): converting one does not change the text / number / type form of the next (1 vs TRUE vs "1" vs 1.0 are distinct spellings)', 10)

    # ---------------- 2. every registered function, every numeric position, every spelling
    for name in sorted(F):
        if name in EXEMPT or name.startswith('OP_') or name in ('RAND', 'RANDBETWEEN', 'NOW', 'TODAY', 'IRR', 'XIRR', 'VDB', 'SUMIF', 'SUMIFS'):
            continue
        f = F[name]
        if not hasattr(f, '__wrapped__'):
            continue
        params = [p for p in inspect.signature(f).parameters.values() if not p.name.startswith('_')]
        if any('XlExpr' in str(p.annotation) for p in params) or not params:
            continue
        numeric = [i for i, p in enumerate(params) if p.kind != p.VAR_POSITIONAL and p.annotation is T.XlNumber]
        if not numeric:
            continue

        def mk_fn(f, params, numeric, name):
            def h(n: int, k: int) -> bool:
                n = concretize(n, 1, 3)
                k = concretize(k, 0, len(numeric) - 1)
                idx = numeric[k]
                if params[idx].name == 'type' and n != 1:
                    return True            # the payment-timing switch only has the values 0 and 1

                def call(spelled):
                    args = []
                    for i, p in enumerate(params):
                        if p.kind == p.VAR_POSITIONAL:
                            args.extend([2, 3])
                        elif i == idx:
                            args.append(spelled)
                        elif p.name in ('type', 'range_lookup', 'no_switch'):
                            args.append(0 if p.name == 'type' else False)       # the only valid constants for these switches
                        else:
                            args.append(sample_for(p, 2))
                    return f(*args)
                base = call(n)
                for sp in (T.Number(n), str(n), float(n), T.Text(str(n)), numpy.int64(n), numpy.float64(n), str(n) + '.0'):
                    if not same_result(call(sp), base):
                        return False
                if n == 1 and not same_result(call(True), base):
                    return False
                return True
            return h
        add(f"function[{name}]", mk_fn(f, params, numeric, name), lambda n, k, numeric=numeric: 1 <= n <= 3 and 0 <= k < len(numeric), [(2, 0), (1, len(numeric) - 1)],
            f'{name}: value 1..3 at each of its {len(numeric)} numeric parameter(s) (forked) spelt as int, float, Number, numeric text ("n", "n.0"), Text object, numpy.int64, numpy.float64 (and TRUE for 1): same result', 6,
            lambda n, k, name=name: f'{name}: value {n} at numeric parameter #{k}', fam='function')

    # ---------------- 3. arithmetic coercion
    M = mk({'A1': 1, 'B1': 1, 'Z1': '=A1+B1', 'Z2': '=A1*B1', 'Z3': '=A1-B1', 'Z4': '=A1&B1', 'Z5': '="3"+1', 'Z6': '=TRUE+1', 'Z7': '=C9+1', 'Z8': '=A1/B1', 'Z9': '=-A1', 'Y1': '=A1^2'})

    def h_arith(n: int, m: int, b: bool) -> bool:
        ev = Evaluator(M)
        ok = num_is(ev.evaluate('Sheet1!Z5'), 4) and num_is(ev.evaluate('Sheet1!Z6'), 2) and num_is(ev.evaluate('Sheet1!Z7'), 1)
        for a_spelled, a_val in ((str(n), n), (b, 1 if b else 0), (None, 0), (n, n)):
            setv(M, 'Sheet1!A1', a_spelled)
            setv(M, 'Sheet1!B1', m)
            ok = ok and num_is(ev.evaluate('Sheet1!Z1'), a_val + m) and num_is(ev.evaluate('Sheet1!Z2'), a_val * m) and num_is(ev.evaluate('Sheet1!Z3'), a_val - m) and num_is(ev.evaluate('Sheet1!Z9'), -a_val)
        setv(M, 'Sheet1!A1', n)
        setv(M, 'Sheet1!B1', b)
        ok = ok and text_is(ev.evaluate('Sheet1!Z4'), str(n) + val(T.Text.cast(b)))
        setv(M, 'Sheet1!B1', None)
        ok = ok and text_is(ev.evaluate('Sheet1!Z4'), str(n))
        return ok
    add('arithmetic', h_arith, lambda n, m, b: -99 <= n <= 99, [(3, 1, True), (-4, 0, False)],
        'text(n) op m = n op m, bool op m = int(bool) op m, blank op m = 0 op m for + - * and unary minus (n in -99..99 rendered, m any int); & converts both operands to text; "3"+1 = 4, TRUE+1 = 2, blank+1 = 1', 30)

    # ---------------- 4. dispatch: letter case, _xlfn. prefix, user-registered functions
    names = ['sum', 'Sum', 'SUM', 'sUm', '_xlfn.SUM', '_XLFN.sum', '_xlfn.Sum']
    cells = {'A1': 1, 'A2': 2}
    for i, nm in enumerate(names):
        cells[f'Z{i + 1}'] = f'={nm}(A1,A2)'
    cells['Y1'] = '=_xlfn.CONCAT(A1,A2)'
    cells['Y2'] = '=abs(A1)+Max(A1,A2)+_xlfn.ROUND(A2,0)'
    MD = mk(cells)

    def h_dispatch(a: int, b: int, k: int) -> bool:
        k = concretize(k, 0, len(names) - 1)
        setv(MD, 'Sheet1!A1', a)
        setv(MD, 'Sheet1!A2', b)
        ev = Evaluator(MD)
        return num_is(ev.evaluate(f'Sheet1!Z{k + 1}'), a + b)
    add('dispatch[case and prefix]', h_dispatch, lambda a, b, k: 0 <= k < len(names), [(1, 2, 0), (3, 4, 4)], f'function name spelt {names} (forked): same function; cell values all ints', 5)

    # every registered name resolves to its own function, with and without the _xlfn. prefix, in upper and lower case
    REG = sorted(n for n in F if not n.startswith('VERIF'))
    ns = {n: (lambda idx: (lambda *a: idx))(i) for i, n in enumerate(REG)}
    rcells = {}
    for i, n in enumerate(REG):
        rcells[f'A{i + 1}'] = f'=_xlfn.{n}()'
        rcells[f'B{i + 1}'] = f'={n.lower()}()'
        rcells[f'C{i + 1}'] = f'=_XLFN.{n.capitalize()}()'
    MR = mk(rcells)

    def h_registry(k: int) -> bool:
        k = concretize(k, 0, len(REG) - 1)
        ev = Evaluator(MR, ns)
        return val(ev.evaluate(f'Sheet1!A{k + 1}')) == k and val(ev.evaluate(f'Sheet1!B{k + 1}')) == k and val(ev.evaluate(f'Sheet1!C{k + 1}')) == k
    add('dispatch[every registered name]', h_registry, lambda k: 0 <= k < len(REG), [(0,), (len(REG) - 1,)],
        f'each of the {len(REG)} registered names (forked), spelt _xlfn.NAME, name in lower case and _XLFN.Name: resolves to its own function (a namespace of index-returning stand-ins)', 30, timeout=600)

    # user-registered function
    @xl.register()
    @xl.validate_args
    def VERIFTRIPLE(number: T.XlNumber, label: T.XlText = 'x') -> T.XlNumber:
        return number * 3
    MU = mk({'A1': 1, 'Z1': '=VERIFTRIPLE(A1)', 'Z2': '=veriftriple("2")+VERIFTRIPLE(TRUE)', 'Z3': '=VERIFTRIPLE(#N/A)', 'Z4': '=VERIFTRIPLE("abc")'})

    def h_user(n: int) -> bool:
        ev = Evaluator(MU)            # created after the registration: must see the function
        setv(MU, 'Sheet1!A1', n)
        ok = num_is(ev.evaluate('Sheet1!Z1'), 3 * n)
        setv(MU, 'Sheet1!A1', str(n))
        ok = ok and num_is(ev.evaluate('Sheet1!Z1'), 3 * n)
        setv(MU, 'Sheet1!A1', None)
        ok = ok and num_is(ev.evaluate('Sheet1!Z1'), 0)
        return ok and num_is(ev.evaluate('Sheet1!Z2'), 9) and is_err(ev.evaluate('Sheet1!Z3'), XE.NaExcelError) and is_err(ev.evaluate('Sheet1!Z4'), XE.ValueExcelError)
    add('dispatch[user-registered function]', h_user, lambda n: -99 <= n <= 99, [(4,), (0,)],
        'a function registered through xl.register() + validate_args is visible to an evaluator created afterwards and obeys the coercion rules (n in -99..99 as int / numeric text / blank; boolean; error; non-numeric text)', 10)
    return obs
