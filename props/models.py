"""Small pre-compiled models shared by C04 / C05 / C13 with independent Python reference functions.

Each entry: name -> dict(model factory, inputs (address list), formulas {address: reference function of the input dict}).
Models are compiled by the real ModelCompiler outside the traced code; harnesses only write input values per path.
"""
from xlcalculator import ModelCompiler
from props.common import *  # noqa


def _named(cells, names, default='Sheet1'):
    mc = ModelCompiler()
    mc.read_and_parse_dict(dict(cells), default_sheet=default, build_code=False)
    mc.defined_names = dict(names)
    mc.build_defined_names()
    mc.link_cells_to_defined_names()
    mc.model.build_code()
    return mc.model


def S(a):
    return 'Sheet1!' + a


MODELS = {}

MODELS['chain'] = dict(
    make=lambda: mk({'A1': 1, 'A2': 2, 'B1': '=A1*2', 'C1': '=B1+A2', 'D1': '=C1-1', 'E1': '=-A1--A2'}),
    inputs=[S('A1'), S('A2')],
    formulas={S('B1'): lambda v: v[S('A1')] * 2,
              S('C1'): lambda v: v[S('A1')] * 2 + v[S('A2')],
              S('D1'): lambda v: v[S('A1')] * 2 + v[S('A2')] - 1,
              S('E1'): lambda v: -v[S('A1')] + v[S('A2')]},
    names={},
)
MODELS['diamond'] = dict(
    make=lambda: mk({'A1': 1, 'B1': '=A1+1', 'C1': '=A1*3', 'D1': '=B1+C1', 'E1': '=D1+B1+A1'}),
    inputs=[S('A1')],
    formulas={S('B1'): lambda v: v[S('A1')] + 1,
              S('C1'): lambda v: v[S('A1')] * 3,
              S('D1'): lambda v: v[S('A1')] * 4 + 1,
              S('E1'): lambda v: v[S('A1')] * 6 + 2},
    names={},
)
MODELS['range'] = dict(
    make=lambda: mk({'A1': 1, 'A2': 2, 'A3': 3, 'C1': 4, 'Z1': '=SUM(A1:A3)+C1', 'Z2': '=Z1*2', 'Z3': '=SUM(A1:A2)-SUM(A2:A3)'}),
    inputs=[S('A1'), S('A2'), S('A3'), S('C1')],
    formulas={S('Z1'): lambda v: v[S('A1')] + v[S('A2')] + v[S('A3')] + v[S('C1')],
              S('Z2'): lambda v: (v[S('A1')] + v[S('A2')] + v[S('A3')] + v[S('C1')]) * 2,
              S('Z3'): lambda v: v[S('A1')] - v[S('A3')]},
    names={},
)
MODELS['range2'] = dict(
    # a range that contains a formula cell fed by an input outside the range
    make=lambda: mk({'A1': 1, 'B1': 2, 'B2': '=A1*2', 'B3': 3, 'Z1': '=SUM(B1:B3)', 'Z2': '=MAX(B1:B3)-MIN(B1:B3)+Z1*0'}),
    inputs=[S('A1'), S('B1'), S('B3')],
    formulas={S('B2'): lambda v: v[S('A1')] * 2,
              S('Z1'): lambda v: v[S('B1')] + v[S('A1')] * 2 + v[S('B3')]},
    names={}, skip=('C13',),
)
MODELS['errlit'] = dict(
    # error literals reaching AND / OR / NOT on every evaluation (the error is absorbed by ISERROR)
    make=lambda: mk({'A1': 5, 'B1': '=IF(ISERROR(NOT(#N/A)),A1*3,0)', 'B2': '=IF(ISERROR(AND(A1=A1,#N/A)),A1,0)', 'B3': '=IF(ISERROR(OR(#N/A,A1>0)),A1+1,0)'}),
    inputs=[S('A1')],
    formulas={S('B1'): lambda v: v[S('A1')] * 3, S('B2'): lambda v: v[S('A1')], S('B3'): lambda v: v[S('A1')] + 1},
    names={}, skip=('C04', 'C13'),
)
MODELS['lookalikes'] = dict(
    # constants that compare equal but are different values (1, TRUE, "1", 1.0; 0, FALSE): the type code of each must not depend on
    # which of the others was read before (type code: 1 number, 100 text, 0 logical)
    make=lambda: mk({'A1': 1, 'A2': True, 'A3': '1', 'A5': 0, 'A6': False, 'A4': 5,
                     'B1': '=IF(ISNUMBER(A1),1,0)+IF(ISTEXT(A1),100,0)+A4', 'B2': '=IF(ISNUMBER(A2),1,0)+IF(ISTEXT(A2),100,0)+A4',
                     'B3': '=IF(ISNUMBER(A3),1,0)+IF(ISTEXT(A3),100,0)+A4', 'B5': '=IF(ISNUMBER(A5),1,0)+IF(ISTEXT(A5),100,0)+A4',
                     'B6': '=IF(ISNUMBER(A6),1,0)+IF(ISTEXT(A6),100,0)+A4'}),
    inputs=[S('A4')],
    formulas={S('B1'): lambda v: 1 + v[S('A4')], S('B2'): lambda v: v[S('A4')], S('B3'): lambda v: 100 + v[S('A4')],
              S('B5'): lambda v: 1 + v[S('A4')], S('B6'): lambda v: v[S('A4')]},
    names={}, skip=('C04', 'C13'),
)
MODELS['twins'] = dict(
    # the same unqualified formula text on two sheets over different data
    make=lambda: mk_sheets({'Jan!A1': 1, 'Feb!A1': 10, 'Jan!A2': 2, 'Feb!A2': 20, 'Jan!B1': '=A1*2', 'Feb!B1': '=A1*2', 'Jan!B2': '=SUM(A1:A2)', 'Feb!B2': '=SUM(A1:A2)'}, default='Jan'),
    inputs=['Jan!A1', 'Feb!A1'],
    formulas={'Jan!B1': lambda v: v['Jan!A1'] * 2, 'Feb!B1': lambda v: v['Feb!A1'] * 2,
              'Jan!B2': lambda v: v['Jan!A1'] + 2, 'Feb!B2': lambda v: v['Feb!A1'] + 20},
    names={}, skip=('C04', 'C13'),
)
MODELS['names'] = dict(
    make=lambda: _named({'Sheet1!A1': 1, 'Sheet2!A1': 10, 'Sheet1!B1': '=rate*A1', 'Sheet2!B1': '=Sheet1!B1+Sheet2!A1', 'Sheet1!C1': '=Sheet2!B1-rate'},
                        {'rate': 'Sheet2!A1', 'result': 'Sheet1!C1'}),
    inputs=['Sheet1!A1', 'Sheet2!A1'],
    formulas={'Sheet1!B1': lambda v: v['Sheet2!A1'] * v['Sheet1!A1'],
              'Sheet2!B1': lambda v: v['Sheet2!A1'] * v['Sheet1!A1'] + v['Sheet2!A1'],
              'Sheet1!C1': lambda v: v['Sheet2!A1'] * v['Sheet1!A1']},
    names={'rate': 'Sheet2!A1', 'result': 'Sheet1!C1'},
)


def _txt(v):
    return str(v)


MODELS['typed'] = dict(
    make=lambda: mk({'A1': 1, 'B1': '=ISNUMBER(A1)', 'C1': '=A1&"x"', 'D1': '=IF(ISNUMBER(A1),A1+1,0)'}),
    inputs=[S('A1')],
    formulas={S('B1'): lambda v: isinstance(v[S('A1')], int) and not isinstance(v[S('A1')], bool),
              S('C1'): lambda v: ('True' if v[S('A1')] else 'False') + 'x' if isinstance(v[S('A1')], bool) else str(v[S('A1')]) + 'x',
              S('D1'): lambda v: 0 if isinstance(v[S('A1')], bool) else v[S('A1')] + 1},
    names={},
    typed=True,
)
MODELS['absent'] = dict(
    make=lambda: mk({'A1': 1, 'B1': '=A1+A2', 'C1': '=B1*2+A3'}),
    inputs=[S('A1'), S('A2'), S('A3')],
    formulas={S('B1'): lambda v: v[S('A1')] + v.get(S('A2'), 0),
              S('C1'): lambda v: (v[S('A1')] + v.get(S('A2'), 0)) * 2 + v.get(S('A3'), 0)},
    names={},
    absent=[S('A2'), S('A3')],
)


def reset(model, spec):
    """Forget everything a previous path may have left behind in the shared model objects."""
    for addr in spec['formulas']:
        c = model.cells[addr]
        c.value = None
        c.need_update = True
    for addr in spec['inputs']:
        if addr in model.cells:
            model.cells[addr].value = 0       # never leave a symbolic value of an earlier path behind
    for addr in spec.get('absent', []):
        model.cells.pop(addr, None)           # cells that do not exist until a history sets them
