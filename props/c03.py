"""C03 — references denote exactly the addressed cells on the right sheet."""
import itertools
from typing import Optional, Union

from vf.ob import Ob
from props.common import *  # noqa
from props.models import _named
from xlcalculator import xltypes as XT

EXPLANATION = ('Workbooks with several sheets (plain name, name with blank, name with apostrophe) are compiled once by the real ModelCompiler; cell '
               'contents are symbolic. Every spelling of a reference to the same target ($ variants, unqualified/qualified/quoted) is a probe cell '
               'and z3 decides that all evaluate to the target\'s symbolic value; rectangles (every r x c up to the bound, at two offsets) filled with '
               'symbolic ints/blanks are consumed by SUM/COUNT/COUNTA and compared with the fold over exactly those cells; blank gaps of symbolic '
               'length (incl. > 100) between values; defined names for cells and ranges.')
ASSUMPTIONS = ['P1, P2', 'addresses are enumerated (openpyxl regexes on symbolic address text do not finish), contents are symbolic',
               'outside: whole-column/row references, 3-D references, rectangles beyond the bound']
TRUSTED = ['fold oracles in props/c03.py']

SHEETS = ['Data', 'My Sheet', "Bob's", 'Data2']     # 'Data2' extends the name 'Data' (prefix confusion)


def q(name):
    if name.isalnum():
        return name
    return "'" + name.replace("'", "''") + "'"


def spelling_obs(timeout):
    """All spellings of a reference to <sheet>!B2 evaluate to its value, from the same and from other sheets,
    also when evaluation crosses sheets repeatedly."""
    obs = []
    dollars = ['B2', '$B2', 'B$2', '$B$2']
    cells = {}
    probes = []   # (address, target sheet)
    for si, s in enumerate(SHEETS):
        cells[f'{s}!B2'] = si + 1
        # unqualified spellings on the same sheet
        for di, d in enumerate(dollars):
            a = f'{s}!D{di + 1}'
            cells[a] = f'={d}'
            probes.append((a, s))
        # qualified spellings from every sheet
        for ti, t in enumerate(SHEETS):
            for di, d in enumerate(dollars):
                a = f'{s}!{"EFGI"[ti]}{di + 1}'
                cells[a] = f'={q(t)}!{d}'
                probes.append((a, t))
    # chains crossing sheets: Data!H1 -> 'My Sheet'!H1 (unqualified B2 there) etc.
    cells['Data!H1'] = "='My Sheet'!H1+0"
    cells['My Sheet!H1'] = "='Bob''s'!H1+B2*0+0"
    cells["Bob's!H1"] = '=B2+Data!H2*0'
    cells['Data!H2'] = '=B2'
    cells['Data!H3'] = "='My Sheet'!H3*100+B2"
    cells['My Sheet!H3'] = "='Bob''s'!H3*10+B2"
    cells["Bob's!H3"] = '=B2+Data!H2*0'
    # a formula on 'Data' reaching a formula cell on 'Data2' (and back) whose references are unqualified / a range
    cells['Data!H4'] = '=Data2!H4*1000+B2'
    cells['Data2!H4'] = '=B2*10+SUM(B2:B3)+Data!H5'
    cells['Data!H5'] = '=$B$2*0'
    cells['Data2!B3'] = 0
    # a sheet-qualified range of another sheet followed by unqualified references in the same formula
    cells['Data!H6'] = "=SUM(Data2!B2:B3)*1000+B2+SUM('My Sheet'!B2:B2,B2:B2)"
    M = mk_sheets(cells, default='Data')

    def h(a: int, b: int, c: int, d: int) -> bool:
        vals = {'Data': a, 'My Sheet': b, "Bob's": c, 'Data2': d}
        for s, v in vals.items():
            setv(M, f'{s}!B2', v)
        ev = Evaluator(M)
        for addr, t in probes:
            if not num_is(ev.evaluate(addr), vals[t]):
                return False
        if not num_is(ev.evaluate('Data!H1'), c):
            return False
        if not num_is(ev.evaluate('Data!H4'), (d * 10 + d) * 1000 + a) or not num_is(M.cells['Data2!H4'].value, d * 11):
            return False
        if not num_is(ev.evaluate('Data!H6'), d * 1000 + a + b + a):
            return False
        return num_is(ev.evaluate('Data!H3'), (c * 10 + b) * 100 + a)
    obs.append(Ob('c03.spellings', h, witness=[(1, 2, 3, 4), (0, -5, 7, 9)], timeout=timeout, cost=30, family='c03.spellings',
                  bounds=f'4 sheets {SHEETS} (one name extends another); target B2 on each with a symbolic int; {len(probes)} probe cells = 4 $-variants x (unqualified + qualified to each sheet, '
                         'quoted where needed) on each sheet; two chains crossing all three sheets with unqualified references on each',
                  show=lambda a, b, c, d: f'B2 values: Data={a}, My Sheet={b}, Bob\'s={c}, Data2={d}'))

    # blank / missing cells read as blank, never as an error
    MB = mk({'A1': 1, 'Z1': '=B7+1', 'Z2': '=B7&"x"', 'Z3': '=SUM(C1:D2)', 'Z4': '=COUNTA(C1:D2)', 'Z5': '=ISBLANK(B7)', 'Z6': '=Other!A1+A1', 'Z7': '=COUNT(C1:D2)'})

    def h_blank(a: int) -> bool:
        setv(MB, 'Sheet1!A1', a)
        ev = Evaluator(MB)
        return (num_is(ev.evaluate('Sheet1!Z1'), 1) and text_is(ev.evaluate('Sheet1!Z2'), 'x') and num_is(ev.evaluate('Sheet1!Z3'), 0)
                and val(ev.evaluate('Sheet1!Z4')) == 0 and val(ev.evaluate('Sheet1!Z5')) is True and num_is(ev.evaluate('Sheet1!Z6'), a)
                and val(ev.evaluate('Sheet1!Z7')) == 0)
    obs.append(Ob('c03.empty-cells', h_blank, witness=[(4,)], timeout=timeout, cost=3, family='c03.spellings',
                  bounds='references to cells that do not exist (same sheet, unknown sheet, inside a range) read as blank: 0 in arithmetic, "" in &, ignored by aggregates',
                  show=lambda a: f'A1={a}'))
    return obs


def rect_obs(maxr, maxc, timeout):
    obs = []
    offsets = [(1, 1), (3, 2)]     # top-left corners (row, col): A1 and B3

    def col(c):
        return 'ABCDEFGH'[c - 1]
    for (r0, c0) in offsets:
        for nr in range(1, maxr + 1):
            for nc in range(1, maxc + 1):
                addrs = [[f'{col(c0 + j)}{r0 + i}' for j in range(nc)] for i in range(nr)]
                flat = [a for row in addrs for a in row]
                rng = f'{addrs[0][0]}:{addrs[-1][-1]}'
                # a frame of sentinel values around the rectangle must not be seen
                cells = {a: 1 for a in flat}
                frame = []
                for i in range(-1, nr + 1):
                    for j in range(-1, nc + 1):
                        rr, cc = r0 + i, c0 + j
                        if rr >= 1 and cc >= 1 and not (0 <= i < nr and 0 <= j < nc):
                            frame.append(f'{col(cc)}{rr}')
                for a in frame:
                    cells[a] = 1000
                cells['Z1'] = f'=SUM({rng})'
                cells['Z2'] = f'=COUNTA({rng})'
                cells['Z3'] = f'=COUNT({rng})'
                cells['Z4'] = f'=SUM(${addrs[0][0][0]}${addrs[0][0][1:]}:{addrs[-1][-1]})'
                M = mk(cells)
                n = len(flat)
                if n > 9:
                    continue

                def mk_h(M, flat, addrs, rng, n):
                    U = Optional[int]

                    def body(vs):
                        for a, v in zip(flat, vs):
                            setv(M, 'Sheet1!' + a, v)
                        ev = Evaluator(M)
                        s = 0
                        cnt = 0
                        for v in vs:
                            if v is not None:
                                s = s + v
                                cnt += 1
                        # row-major address matrix of the range object
                        if M.ranges['Sheet1!' + rng].cells != [['Sheet1!' + a for a in row] for row in addrs]:
                            return False
                        return (num_is(ev.evaluate('Sheet1!Z1'), s) and val(ev.evaluate('Sheet1!Z2')) == cnt and val(ev.evaluate('Sheet1!Z3')) == cnt
                                and num_is(ev.evaluate('Sheet1!Z4'), s))
                    # fixed arities (CrossHair needs real signatures)
                    if n == 1:
                        def h(v0: U) -> bool: return body((v0,))
                    elif n == 2:
                        def h(v0: U, v1: U) -> bool: return body((v0, v1))
                    elif n == 3:
                        def h(v0: U, v1: U, v2: U) -> bool: return body((v0, v1, v2))
                    elif n == 4:
                        def h(v0: U, v1: U, v2: U, v3: U) -> bool: return body((v0, v1, v2, v3))
                    elif n == 6:
                        def h(v0: U, v1: U, v2: U, v3: U, v4: U, v5: U) -> bool: return body((v0, v1, v2, v3, v4, v5))
                    elif n == 9:
                        def h(v0: U, v1: U, v2: U, v3: U, v4: U, v5: U, v6: U, v7: U, v8: U) -> bool: return body((v0, v1, v2, v3, v4, v5, v6, v7, v8))
                    else:
                        return None
                    return h
                h = mk_h(M, flat, addrs, rng, n)
                if h is None:
                    continue
                obs.append(Ob(f'c03.rect[{rng}]', h, witness=[tuple(range(1, n + 1)), tuple([None] * n), tuple([None if i % 2 else i for i in range(n)])],
                              timeout=timeout, cost=2 ** n / 4 + 2, family='c03.rect',
                              bounds=f'rectangle {nr}x{nc} at {addrs[0][0]}: every cell Optional[int] (blank pattern by forking, values all ints); sentinel frame of 1000s around it; '
                                     'SUM, COUNT, COUNTA and a $-anchored spelling equal the fold over exactly these cells; XLRange.cells is the row-major matrix',
                              show=lambda *vs, rng=rng: f'{rng} = {vs}'))
    return obs


def wide_obs(timeout):
    """A rectangle that crosses the Z -> AA column boundary: row-major order is by column index, not by column letters."""
    obs = []
    cols = ['Y', 'Z', 'AA', 'AB']
    cells = {f'{c}{r}': 1 for r in (1, 2) for c in cols}
    cells['A1'] = '=CONCAT(Y1:AB2)'
    cells['A2'] = '=SUM(Y1:AB2)'
    cells['A3'] = '=SUMPRODUCT(Y1:AB1,Y2:AB2)'
    cells['A4'] = '=MATCH(7,Y1:Y2,0)'
    M = mk(cells)

    def h(v0: int, v1: int, v2: int, v3: int, w0: int, w1: int, w2: int, w3: int) -> bool:
        top, bot = (v0, v1, v2, v3), (w0, w1, w2, w3)
        for c, v, w in zip(cols, top, bot):
            setv(M, f'Sheet1!{c}1', v)
            setv(M, f'Sheet1!{c}2', w)
        if M.ranges['Sheet1!Y1:AB2'].cells != [[f'Sheet1!{c}{r}' for c in cols] for r in (1, 2)]:
            return False
        ev = Evaluator(M)
        return (text_is(ev.evaluate('Sheet1!A1'), ''.join(str(x) for x in top + bot)) and num_is(ev.evaluate('Sheet1!A2'), sum(top) + sum(bot))
                and num_is(ev.evaluate('Sheet1!A3'), sum(a * b for a, b in zip(top, bot))))
    obs.append(Ob('c03.rect[Y1:AB2 across Z/AA]', h, pre=lambda *v: all(0 <= x <= 9 for x in v), witness=[(1, 2, 3, 4, 5, 6, 7, 8)], timeout=timeout, cost=20, family='c03.rect',
                  bounds='rectangle 2x4 from column Y to AB, cells in 0..9: XLRange.cells is the row-major matrix in column-index order; CONCAT (order-sensitive), SUM, SUMPRODUCT of its rows',
                  show=lambda *v: f'Y1:AB1={v[:4]!r} Y2:AB2={v[4:]!r}'))
    return obs


def gap_obs(timeout, thorough):
    obs = []
    N = 130
    # two-column range so that a cut-off row would lose the value behind the blanks
    cells = {f'A{i}': 1 for i in range(1, N + 1)}
    cells.update({f'B{i}': 1 for i in range(1, N + 1)})
    cells['Z1'] = f'=SUM(A1:B{N})'
    cells['Z2'] = f'=COUNT(A1:B{N})'
    cells['Z3'] = f'=SUM(A1:A{N})'
    M = mk(cells)
    gaps = list(range(0, N - 1)) if thorough else [0, 1, 49, 50, 51, 52, 99, 100, 101, 102, 127, 128]

    def h(g: int, x: int, y: int, z: int) -> bool:
        gv = None
        for cand in gaps:
            if g == cand:
                gv = cand
                break
        if gv is None:
            return True
        # rows 2..g+1 blank in both columns; row 1 = (x, blank); row g+2 = (blank, y); all later rows = (z, blank)
        for i in range(1, N + 1):
            if i == 1:
                a, b = x, None
            elif i <= gv + 1:
                a, b = None, None
            elif i == gv + 2:
                a, b = None, y
            else:
                a, b = z, None
            setv(M, f'Sheet1!A{i}', a)
            setv(M, f'Sheet1!B{i}', b)
        ev = Evaluator(M)
        later = N - (gv + 2)
        return (num_is(ev.evaluate('Sheet1!Z1'), x + y + later * z) and val(ev.evaluate('Sheet1!Z2')) == 2 + later
                and num_is(ev.evaluate('Sheet1!Z3'), x + later * z))
    obs.append(Ob('c03.blank-gap', h, pre=lambda g, x, y, z: g in gaps, witness=[(0, 1, 2, 3), (100, 1, 2, 3), (128, 5, 6, 7)], timeout=timeout, cost=len(gaps) * 3,
                  family='c03.gap',
                  bounds=f'range A1:B{N}: a gap of g fully blank rows (g in {"0.." + str(N - 2) if thorough else gaps}, forked) between a value in column A and a value in column B '
                         '(first cell of that row blank), then values in every remaining row; values: all ints; SUM and COUNT see every value exactly once',
                  show=lambda g, x, y, z: f'gap={g} rows, x={x}, y={y}, z={z}'))
    return obs


def name_obs(timeout):
    obs = []
    M = _named({'Data!A1': 1, 'Data!A2': 2, 'Data!B1': 3, 'Data!B2': 4, 'Calc!A1': '=rate*2', 'Calc!A2': '=SUM(block)', 'Calc!A3': '=SUM(block)+rate+Data!B2',
                'Calc!A4': '=COUNT(block)', 'Calc!A5': '=MAX(col)-MIN(col)', 'Calc!B1': 10},
               {'rate': 'Data!A1', 'block': 'Data!A1:B2', 'col': 'Data!$B$1:$B$2', 'local': 'Calc!B1'}, default='Calc')

    def h(a: int, b: int, c: int, d: int, w: int) -> bool:
        for addr, v in (('Data!A1', a), ('Data!A2', b), ('Data!B1', c), ('Data!B2', d)):
            setv(M, addr, v)
        ev = Evaluator(M)
        ok = (num_is(ev.evaluate('Calc!A1'), a * 2) and num_is(ev.evaluate('Calc!A2'), a + b + c + d) and num_is(ev.evaluate('Calc!A3'), a + b + c + d + a + d)
              and val(ev.evaluate('Calc!A4')) == 4 and num_is(ev.evaluate('Calc!A5'), (c if c > d else d) - (c if c < d else d))
              and val(ev.evaluate('rate')) == a and val(ev.get_cell_value('rate')) == a)
        if not ok:
            return False
        ev.set_cell_value('rate', w)
        return val(M.cells['Data!A1'].value) == w and num_is(ev.evaluate('Calc!A1'), w * 2) and num_is(ev.evaluate('Calc!A2'), w + b + c + d)
    obs.append(Ob('c03.defined-names', h, witness=[(1, 2, 3, 4, 9), (0, 0, 0, 0, 0)], timeout=timeout, cost=15, family='c03.names',
                  bounds='names bound to a cell on another sheet, to a 2x2 range, to a $-anchored column range; used inside formulas and as evaluate/get/set targets; values: all ints',
                  show=lambda a, b, c, d, w: f'A1={a} A2={b} B1={c} B2={d}, then set rate={w}'))
    return obs


def build(tier, seed):
    thorough = tier == 'thorough'
    obs = spelling_obs(300)
    obs += rect_obs(3, 3, 900 if thorough else 300) if thorough else rect_obs(2, 3, 300)
    obs += wide_obs(300)
    obs += gap_obs(1800 if thorough else 400, thorough)
    obs += name_obs(300)
    return obs
