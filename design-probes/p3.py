from xlcalculator import ModelCompiler, Evaluator
from xlcalculator.xlfunctions import func_xltypes as T, xlerrors

def _mk(formula):
    return ModelCompiler().read_and_parse_dict({'A1': 1, 'B1': 1, 'C1': 1, 'Z1': formula})

def _run(m, a, b, c):
    m.cells['Sheet1!A1'].value = a
    m.cells['Sheet1!B1'].value = b
    m.cells['Sheet1!C1'].value = c
    return Evaluator(m).evaluate('Sheet1!Z1')

M1 = _mk('=A1/B1/C1')
def h_divdiv(a: int, b: int, c: int) -> bool:
    """
    post: _
    """
    r = _run(M1, a, b, c)
    if b == 0 or c == 0:
        return isinstance(r, xlerrors.DivZeroExcelError)
    return isinstance(r, T.Number) and r.value == (a / b) / c

M2 = _mk('=A1-B1/C1')
def h_subdiv(a: int, b: int, c: int) -> bool:
    """
    post: _
    """
    r = _run(M2, a, b, c)
    if c == 0:
        return isinstance(r, xlerrors.DivZeroExcelError)
    return isinstance(r, T.Number) and r.value == a - (b / c)

M3 = _mk('=A1/B1*C1')
def h_divmul_wrong(a: int, b: int, c: int) -> bool:
    """
    post: _
    """
    r = _run(M3, a, b, c)
    if b == 0 or c == 0:
        return True
    return isinstance(r, T.Number) and r.value == a / (b * c)

M4 = _mk('=A1<B1=C1')
def h_cmpcmp(a: int, b: int, c: bool) -> bool:
    """
    post: _
    """
    r = _run(M4, a, b, c)
    return isinstance(r, T.Boolean) and r.value == ((a < b) == c)

M5 = _mk('=A1&B1+C1')
def h_catadd(a: int, b: int, c: int) -> bool:
    """
    pre: -10 < a < 10 and -10 < b < 10 and -10 < c < 10
    post: _
    """
    r = _run(M5, a, b, c)
    return isinstance(r, T.Text) and r.value == str(a) + str(b + c)

M6 = _mk('=A1+B1&C1')
def h_addcat(a: int, b: int, c: int) -> bool:
    """
    pre: -10 < a < 10 and -10 < b < 10 and -10 < c < 10
    post: _
    """
    r = _run(M6, a, b, c)
    return isinstance(r, T.Text) and r.value == str(a + b) + str(c)

M7 = _mk('=A1&B1*C1')
def h_catmul_num(a: int, b: int, c: int) -> bool:
    """
    pre: 0 <= a < 10 and 0 <= b < 10 and -10 < c < 10
    post: _
    """
    # (a&b)*c would be numeric-text coerced; correct is a&(b*c)
    r = _run(M7, a, b, c)
    return isinstance(r, T.Text) and r.value == str(a) + str(b * c)
