from typing import List, Tuple, Union, Optional
import types, math as pymath
from xlcalculator import ModelCompiler, Evaluator, patch
from xlcalculator.xlfunctions import func_xltypes as T, xlerrors as XE, xl, math as M
F = xl.FUNCTIONS
def _mk(d):
    return ModelCompiler().read_and_parse_dict(dict(d))
def _val(x):
    return x.value if isinstance(x, T.ExcelType) else x

MS = _mk({'A1': 1, 'A2': 2, 'B1': 3, 'B2': 4, 'Z1': '=SUMPRODUCT(A1:A2,B1:B2)'})
def h_sumproduct(a: int, b: int, c: int, d: int) -> bool:
    """
    post: _
    """
    for k, v in zip(('A1','A2','B1','B2'), (a,b,c,d)):
        MS.cells['Sheet1!'+k].value = v
    r = Evaluator(MS).evaluate('Sheet1!Z1')
    return _val(r) == a*c + b*d

MV = _mk({'A1': 1, 'B1': 10, 'C1': 100, 'A2': 2, 'B2': 20, 'C2': 200, 'K1': 2, 'Z1': '=VLOOKUP(K1,A1:C2,2,FALSE)'})
def h_vlookup(k1: int, k2: int, key: int, x: int, y: int) -> bool:
    """
    pre: 0 <= k1 <= 3 and 0 <= k2 <= 3 and 0 <= key <= 3
    post: _
    """
    for k, v in zip(('A1','A2','B1','B2','K1'), (k1,k2,x,y,key)):
        MV.cells['Sheet1!'+k].value = v
    r = Evaluator(MV).evaluate('Sheet1!Z1')
    if key == k1: return _val(r) == x
    if key == k2: return _val(r) == y
    return isinstance(r, XE.NaExcelError)

# domain guards with contract stubs
class _Dom(Exception): pass
def _log(x, *base):
    if float(x) <= 0: raise ValueError('math domain error')
    return 1.5
def _sqrt(x):
    if float(x) < 0: raise ValueError('math domain error')
    return 1.5
STUB_MATH = types.SimpleNamespace(log=_log, sqrt=_sqrt, pi=pymath.pi, ceil=pymath.ceil, floor=pymath.floor, trunc=pymath.trunc, factorial=pymath.factorial)
def h_ln(x: int) -> bool:
    """
    post: _
    """
    old = M.math
    M.math = STUB_MATH
    try:
        r = F['LN'](x)
    finally:
        M.math = old
    return isinstance(r, (T.Number, XE.ExcelError))
def h_sqrt(x: int) -> bool:
    """
    post: _
    """
    old = M.math
    M.math = STUB_MATH
    try:
        r = F['SQRT'](x)
    finally:
        M.math = old
    return isinstance(r, (T.Number, XE.ExcelError))
