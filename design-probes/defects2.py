import sys, datetime
from xlcalculator import ModelCompiler, Evaluator, Model
from xlcalculator.xlfunctions import xl, func_xltypes as T, xlerrors
F = xl.FUNCTIONS
def ev(d, addr='Sheet1!Z1'):
    m = ModelCompiler().read_and_parse_dict(d)
    return Evaluator(m).evaluate(addr)
def t(label, f):
    try:
        r = f()
        print(label, '->', repr(r)[:150])
    except BaseException as e:
        print(label, 'EXC', type(e).__name__, str(e)[:150].replace('\n',' '))
sys.setrecursionlimit(300)
# C07
t('(1/0)=1', lambda: ev({'Z1':'=(1/0)=1'}))
t('10/0&"x"', lambda: ev({'Z1':'=10/0&"x"'}))
t('SUM(1,NA())', lambda: ev({'Z1':'=SUM(1,NA())'}))
t('1+#N/A', lambda: ev({'Z1':'=1+#N/A'}))
t('"a"+1', lambda: ev({'Z1':'="a"+1'}))
t('-"a"', lambda: ev({'Z1':'=-"a"'}))
t('"a"^2', lambda: ev({'Z1':'="a"^2'}))
t('0^-1', lambda: ev({'Z1':'=0^-1'}))
t('TRUE+1', lambda: ev({'Z1':'=TRUE+1'}))
t('"3"+1', lambda: ev({'Z1':'="3"+1'}))
t('blank+1', lambda: ev({'Z1':'=A1+1'}))
# C08
t('MID("12345","2",2)', lambda: F['MID']("12345","2",2))
t('MID("12345",2,2)', lambda: F['MID']("12345",2,2))
t('FIND("a","bab","2")', lambda: F['FIND']("a","bab","2"))
t('LOG("100")', lambda: F['LOG']("100"))
t('=sum(1,2)', lambda: ev({'Z1':'=sum(1,2)'}))
t('=_xlfn.CONCAT("a","b")', lambda: ev({'Z1':'=_xlfn.CONCAT("a","b")'}))
# C09
t('"1"<5', lambda: ev({'Z1':'="1"<5'}))
t('5>"1"', lambda: ev({'Z1':'=5>"1"'}))
t('""=0', lambda: ev({'Z1':'=""=0'}))
t('0=""', lambda: ev({'Z1':'=0=""'}))
t('A1=B1 blank', lambda: ev({'Z1':'=A1=B1'}))
t('A1=0 blank', lambda: ev({'Z1':'=A1=0'}))
t('A1="" blank', lambda: ev({'Z1':'=A1=""'}))
t('A1=FALSE blank', lambda: ev({'Z1':'=A1=FALSE'}))
t('1<"a"', lambda: ev({'Z1':'=1<"a"'}))
t('"a"<FALSE', lambda: ev({'Z1':'="a"<FALSE'}))
t('FALSE<TRUE', lambda: ev({'Z1':'=FALSE<TRUE'}))
t('"a"="A"', lambda: ev({'Z1':'="a"="A"'}))
# C10
t('IF(A1,5) A1 FALSE', lambda: ev({'A1': False, 'Z1':'=IF(A1,5)'}))
t('IF(TRUE,1,1/0)', lambda: ev({'Z1':'=IF(TRUE,1,1/0)'}))
t('IF(TRUE,1,NOSUCH())', lambda: ev({'Z1':'=IF(TRUE,1,NOSUCH())'}))
t('AND(TRUE,1/0)', lambda: ev({'Z1':'=AND(TRUE,1/0)'}))
t('OR(FALSE,#N/A)', lambda: ev({'Z1':'=OR(FALSE,#N/A)'}))
t('NOT(0)', lambda: ev({'Z1':'=NOT(0)'}))
t('IF(2,"y","n")', lambda: ev({'Z1':'=IF(2,"y","n")'}))
t('IF(A1,"y","n") blank', lambda: ev({'Z1':'=IF(A1,"y","n")'}))
# C06
t('cycle2', lambda: ev({'A1':'=B1', 'B1':'=A1', 'Z1':'=A1'}))
t('self', lambda: ev({'A1':'=A1+1', 'Z1':'=A1'}))
t('diamond', lambda: ev({'A1':1, 'B1':'=A1', 'C1':'=A1', 'Z1':'=B1+C1+A1+A1'}))
# C13
def ex():
    m = ModelCompiler().read_and_parse_dict({'A1':1,'A2':2,'B1':'=A1+A2','C1':'=B1*2','D1':'=SUM(A1:A2)'})
    e = ModelCompiler.extract(m, ['Sheet1!C1'])
    return Evaluator(e).evaluate('Sheet1!C1'), sorted(e.cells)
t('extract C1', ex)
def ex2():
    m = ModelCompiler().read_and_parse_dict({'A1':1,'A2':2,'B1':'=A1+A2','C1':'=B1*2','D1':'=SUM(A1:A2)'})
    e = ModelCompiler.extract(m, ['Sheet1!D1'])
    return Evaluator(e).evaluate('Sheet1!D1'), sorted(e.cells)
t('extract D1', ex2)
# C14
t('AVERAGE range with blank', lambda: ev({'A1':1,'A3':3,'Z1':'=AVERAGE(A1:A3)'}))
t('AVERAGE(1,2)', lambda: ev({'Z1':'=AVERAGE(1,2)'}))
t('MIN range text', lambda: ev({'A1':1,'A2':'x','A3':3,'Z1':'=MIN(A1:A3)'}))
t('MAX empty', lambda: ev({'A1':'x','Z1':'=MAX(A1:A2)'}))
t('COUNT', lambda: ev({'A1':1,'A2':'x','A3':3,'Z1':'=COUNT(A1:A4)'}))
t('COUNTA', lambda: ev({'A1':1,'A2':'x','A3':3,'Z1':'=COUNTA(A1:A4)'}))
t('SUMPRODUCT', lambda: ev({'A1':1,'A2':2,'B1':3,'B2':4,'Z1':'=SUMPRODUCT(A1:A2,B1:B2)'}))
t('SUMPRODUCT shape', lambda: ev({'A1':1,'A2':2,'B1':3,'B2':4,'Z1':'=SUMPRODUCT(A1:A2,B1:B3)'}))
t('SUM 2D', lambda: ev({'A1':1,'A2':2,'B1':3,'B2':4,'Z1':'=SUM(A1:B2)'}))
# C15
t('VLOOKUP col3', lambda: ev({'A1':1,'B1':'x','C1':'p','A2':2,'B2':'y','C2':'q','Z1':'=VLOOKUP(2,A1:C2,3,FALSE)'}))
t('VLOOKUP col2', lambda: ev({'A1':1,'B1':'x','C1':'p','A2':2,'B2':'y','C2':'q','Z1':'=VLOOKUP(2,A1:C2,2,FALSE)'}))
t('MATCH approx', lambda: ev({'A1':1,'A2':3,'A3':5,'Z1':'=MATCH(4,A1:A3,1)'}))
t('MATCH approx beyond', lambda: ev({'A1':1,'A2':3,'A3':5,'Z1':'=MATCH(9,A1:A3,1)'}))
t('CHOOSE', lambda: ev({'Z1':'=CHOOSE(2,"a","b")'}))
t('CHOOSE 3', lambda: ev({'Z1':'=CHOOSE(3,"a","b")'}))
t('COUNTIF >-1', lambda: ev({'A1':0,'A2':-2,'Z1':'=COUNTIF(A1:A2,">-1")'}))
t('COUNTIF text ci', lambda: ev({'A1':'a','A2':'A','Z1':'=COUNTIF(A1:A2,"a")'}))
t('COUNTIF <5 with text', lambda: ev({'A1':'a','A2':3,'Z1':'=COUNTIF(A1:A2,"<5")'}))
t('SUMIF', lambda: ev({'A1':1,'A2':3,'Z1':'=SUMIF(A1:A2,">1")'}))
