from xlcalculator import ModelCompiler, Evaluator
from xlcalculator.xlfunctions import func_xltypes as T, xlerrors

def _mk(formula):
    return ModelCompiler().read_and_parse_dict({'A1': 1, 'B1': 1, 'C1': 1, 'Z1': formula})

def _run(m, a, b):
    m.cells['Sheet1!A1'].value = a
    m.cells['Sheet1!B1'].value = b
    return Evaluator(m).evaluate('Sheet1!Z1')

M3 = _mk('=A1/B1')
def h_div(a: int, b: int) -> bool:
    """
    post: _
    """
    r = _run(M3, a, b)
    if b == 0:
        return isinstance(r, xlerrors.DivZeroExcelError)
    return isinstance(r, T.Number) and r.value * b == a

M5 = _mk('=A1^B1')
def h_pow(a: int, b: int) -> bool:
    """
    pre: 0 < a < 10 and 0 <= b < 5
    post: _
    """
    r = _run(M5, a, b)
    return isinstance(r, T.Number) and r.value == a ** b

M6 = _mk('=A1&B1')
def h_cat(a: int, b: int) -> bool:
    """
    post: _
    """
    r = _run(M6, a, b)
    return isinstance(r, T.Text) and r.value == str(a) + str(b)

M7 = _mk('=A1=B1')
def h_eq(a: int, b: int) -> bool:
    """
    post: _
    """
    r = _run(M7, a, b)
    return isinstance(r, T.Boolean) and r.value == (a == b)

M8 = _mk('=-A1^2')
def h_neg(a: int) -> bool:
    """
    post: _
    """
    r = _run(M8, a, 0)
    return isinstance(r, T.Number) and r.value == (-a) ** 2

def h_cat2(a: int, b: int) -> bool:
    """
    pre: -20 < a < 100 and -20 < b < 100
    post: _
    """
    r = _run(M6, a, b)
    return isinstance(r, T.Text) and r.value == str(a) + str(b)
