from typing import List, Tuple, Union, Optional
from xlcalculator import ModelCompiler, Evaluator, parser as P, ast_nodes as N
from xlcalculator.xlfunctions import func_xltypes as T, xlerrors as XE, xl
F = xl.FUNCTIONS
ERR = [XE.NullExcelError, XE.DivZeroExcelError, XE.ValueExcelError, XE.RefExcelError, XE.NameExcelError, XE.NumExcelError, XE.NaExcelError]
def _val(x):
    return x.value if isinstance(x, T.ExcelType) else x

def h_sheetname(name: str) -> bool:
    """
    pre: 1 <= len(name) <= 3 and '!' not in name
    post: _
    """
    f = "='" + name.replace("'", "''") + "'!B2+1"
    ast = P.FormulaParser().parse(f, {})
    return isinstance(ast.left, N.RangeNode) and ast.left.tvalue == name + '!B2'

def h_ws(b1: bool, b2: bool, b3: bool, b4: bool, b5: bool, b6: bool) -> bool:
    """
    post: _
    """
    sp = lambda b: ' ' if b else ''
    f = '=' + sp(b1) + 'SUM(' + sp(b2) + 'A1' + sp(b3) + ',' + sp(b4) + '2' + sp(b5) + ')' + sp(b6) + '*3'
    ast = P.FormulaParser().parse(f, {})
    return str(ast) == '(SUM(A1, 2)) * (3)'

def h_err_round1(e: int, a: int) -> bool:
    """
    pre: 0 <= e < 7
    post: _
    """
    err = ERR[e]()
    return F['ROUND'](err, a) is err

def h_err_round2(e: int, a: int) -> bool:
    """
    pre: 0 <= e < 7
    post: _
    """
    err = ERR[e]()
    return F['ROUND'](a, err) is err
