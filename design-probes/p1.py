from xlcalculator import ModelCompiler, Evaluator
from xlcalculator.xlfunctions import func_xltypes as T, xlerrors

def _mk(formula):
    mc = ModelCompiler()
    return mc.read_and_parse_dict({'A1': 1, 'B1': 1, 'C1': 1, 'Z1': formula})

M1 = _mk('=A1+B1*C1')
M2 = _mk('=A1-B1-C1')
M3 = _mk('=A1/B1')
M4 = _mk('=A1<B1')

def h_addmul(a: int, b: int, c: int) -> bool:
    """
    post: _
    """
    m = M1
    m.cells['Sheet1!A1'].value = a
    m.cells['Sheet1!B1'].value = b
    m.cells['Sheet1!C1'].value = c
    r = Evaluator(m).evaluate('Sheet1!Z1')
    return isinstance(r, T.Number) and r.value == a + b * c

def h_sub(a: int, b: int, c: int) -> bool:
    """
    post: _
    """
    m = M2
    m.cells['Sheet1!A1'].value = a
    m.cells['Sheet1!B1'].value = b
    m.cells['Sheet1!C1'].value = c
    r = Evaluator(m).evaluate('Sheet1!Z1')
    return isinstance(r, T.Number) and r.value == a - (b - c)   # deliberately wrong: expect counterexample

def h_div(a: int, b: int) -> bool:
    """
    post: _
    """
    m = M3
    m.cells['Sheet1!A1'].value = a
    m.cells['Sheet1!B1'].value = b
    r = Evaluator(m).evaluate('Sheet1!Z1')
    if b == 0:
        return isinstance(r, xlerrors.DivZeroExcelError)
    return isinstance(r, T.Number) and r.value * b == a

def h_lt(a: int, b: int) -> bool:
    """
    post: _
    """
    m = M4
    m.cells['Sheet1!A1'].value = a
    m.cells['Sheet1!B1'].value = b
    r = Evaluator(m).evaluate('Sheet1!Z1')
    return isinstance(r, T.Boolean) and r.value == (a < b)
