from xlcalculator import ModelCompiler, Evaluator
from xlcalculator.xlfunctions import func_xltypes as T, xlerrors
def _mk(formula):
    return ModelCompiler().read_and_parse_dict({'A1': 1, 'B1': 1, 'C1': 1, 'Z1': formula})
def _run(m, a, b, c):
    m.cells['Sheet1!A1'].value = a
    m.cells['Sheet1!B1'].value = b
    m.cells['Sheet1!C1'].value = c
    return Evaluator(m).evaluate('Sheet1!Z1')
M1 = _mk('=A1/B1')
def h_div(a: int, b: int) -> bool:
    """
    post: _
    """
    r = _run(M1, a, b, 0)
    if b == 0:
        return isinstance(r, xlerrors.DivZeroExcelError)
    return isinstance(r, T.Number) and r.value == a / b
