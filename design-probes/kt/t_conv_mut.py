import sys
sys.path.insert(0, '/tmp/probe/kt')
from xlcalculator.xlfunctions import engineering as E
import builtins
mut = sys.argv[1]
if mut == 'bound':
    E.BOUNDS[frozenset([E.dec, hex])] = 2 ** 40
elif mut == 'width':
    E.BIT_WIDTHS[oct] = 31
elif mut == 'pad':
    src = None
exec(open('t_conv.py').read())
