import sys, time, datetime
sys.path.insert(0, '/tmp/probe/kt')
import z3
from kt import *
from xlcalculator.xlfunctions import utils as U

# model: datetime as (ordinal:Int, sec:Real in [0,86400))
class MDT:
    __symbolic__ = True
    def __init__(self, ordinal, sec): self.ordinal, self.sec = ordinal, sec
    def sym_add(self, other, it, br):
        assert isinstance(other, MTD)
        tot = self.sec + other.sec
        carry = z3.ToInt(tot / 86400)   # floor for reals
        return MDT(self.ordinal + other.days + carry, tot - z3.ToReal(carry) * 86400)
    def sym_sub(self, other, it, br):
        if isinstance(other, (MDT,)) or isinstance(other, datetime.datetime):
            o = lift(other)
            d = self.sec - o.sec
            carry = z3.ToInt(d / 86400)
            return MTD(self.ordinal - o.ordinal + carry, d - z3.ToReal(carry) * 86400)
        raise NotImplementedError
    def sym_radd(self, other, it, br):
        return lift(other).sym_add(self, it, br)
class MTD:
    __symbolic__ = True
    def __init__(self, days, sec): self.days, self.sec = days, sec   # sec normalized in [0,86400)
    @property
    def seconds(self): return z3.ToInt(self.sec)
    def sym_radd(self, other, it, br):
        return lift(other).sym_add(self, it, br)
def lift(dt):
    if isinstance(dt, MDT): return dt
    return MDT(z3.IntVal(dt.toordinal()), z3.RealVal(dt.hour*3600+dt.minute*60+dt.second))
def m_timedelta(it, br, days=0, seconds=0):
    days = z3.IntVal(days) if isinstance(days, int) else days
    seconds = z3.RealVal(seconds) if isinstance(seconds, (int, float)) else seconds
    if seconds.sort() == z3.IntSort(): seconds = z3.ToReal(seconds)
    carry = z3.ToInt(seconds / 86400)
    return MTD(days + carry, seconds - z3.ToReal(carry) * 86400)
def m_int(it, br, v):
    if is_sym(v):
        if v.sort() == z3.IntSort(): return v
        # Python int() truncates toward zero
        fl = z3.ToInt(v)
        return z3.If(v >= 0, fl, z3.If(z3.ToReal(fl) == v, fl, fl + 1))
    return int(v)
models = {datetime.timedelta: m_timedelta, int: m_int}
it = Interp(models)

def leaves_for(fn, args, assumptions):
    eng = Engine(assumptions)
    t = time.time()
    ls = eng.explore(lambda br: it.run(fn, args, br))
    return ls, eng.queries, time.time() - t

def prove(name, leaves, bad):
    """bad(leaf) -> z3 Bool that is true when property violated on that leaf"""
    s = z3.Solver()
    s.add(z3.Or(*[z3.And(l.pc, bad(l)) for l in leaves]))
    t = time.time(); r = s.check()
    print(name, r, round(time.time()-t, 3), (s.model() if r == z3.sat else ''))

n = z3.Int('n')
REF0 = datetime.date(1899, 12, 30).toordinal()
ls, q, t = leaves_for(U.number_to_datetime, [n], [n >= 1, n <= 2958465])
print('number_to_datetime paths', len(ls), 'queries', q, round(t, 3))
# whole days n>=61: ordinal == REF0 + n and sec == 0
prove('n2d n>=61 gregorian', ls, lambda l: z3.And(n >= 61, z3.Or(l.value.ordinal != REF0 + n, l.value.sec != 0)) if l.kind == 'return' else z3.BoolVal(True))
# 1900 system for n in 1..59: serial 1 = 1900-01-01 ... 59 = 1900-02-28 => ordinal == ord(1899-12-31) + n
REF1 = datetime.date(1899, 12, 31).toordinal()
prove('n2d 1<=n<=59 1900-system', ls, lambda l: z3.And(n <= 59, l.value.ordinal != REF1 + n) if l.kind == 'return' else z3.BoolVal(True))

# fractional serial: time of day
x = z3.Real('x')
ls, q, t = leaves_for(U.number_to_datetime, [x], [x >= 61, x <= 2958465])
print('paths', len(ls), 'queries', q, round(t,3))
prove('n2d fraction', ls, lambda l: z3.Or(z3.ToReal(l.value.ordinal - REF0) + l.value.sec / 86400 != x) if l.kind == 'return' else z3.BoolVal(True))

# datetime_to_number on model datetime
o = z3.Int('o'); s_ = z3.Real('s')
ls, q, t = leaves_for(U.datetime_to_number, [MDT(o, s_)], [o >= REF0 + 61, o <= REF0 + 2958465, s_ >= 0, s_ < 86400, s_ == z3.ToReal(z3.ToInt(s_))])
print('d2n paths', len(ls), 'queries', q, round(t,3))
prove('d2n whole+fraction', ls, lambda l: (l.value != z3.ToReal(o - REF0) + s_ / 86400) if l.kind == 'return' else z3.BoolVal(True))
prove('d2n whole days only', ls, lambda l: z3.And(s_ == 0, l.value != z3.ToReal(o - REF0)) if l.kind == 'return' else z3.BoolVal(True))
