"""Prototype kernel translator: symbolic interpretation of real function ASTs into z3 (path-forking)."""
import ast, inspect, textwrap, itertools
import z3

class Raised(Exception):
    def __init__(self, exc_name, exc_obj=None):
        self.exc_name = exc_name; self.exc_obj = exc_obj

class Leaf:
    def __init__(self, pc, kind, value):
        self.pc, self.kind, self.value = pc, kind, value   # kind: 'return' | 'raise'

class PathAbort(Exception):
    pass

class Engine:
    """DFS over branch decisions by re-execution with a decision prefix (like DSE)."""
    def __init__(self, assumptions=()):
        self.assumptions = list(assumptions)
        self.solver = z3.Solver()
        self.queries = 0

    def feasible(self, conds):
        self.queries += 1
        self.solver.push()
        for c in conds: self.solver.add(c)
        r = self.solver.check()
        self.solver.pop()
        return r != z3.unsat

    def explore(self, run):
        """run(brancher) -> executes one path; brancher.decide(cond) returns bool."""
        leaves = []
        stack = [[]]   # decision prefixes
        while stack:
            prefix = stack.pop()
            br = Brancher(self, prefix, stack)
            try:
                kind, val = run(br)
            except PathAbort:
                continue
            leaves.append(Leaf(z3.And(*br.pc) if br.pc else z3.BoolVal(True), kind, val))
        return leaves

class Brancher:
    def __init__(self, eng, prefix, stack):
        self.eng, self.prefix, self.stack = eng, prefix, stack
        self.i = 0
        self.pc = list(eng.assumptions)
        self.trace = []
    def decide(self, cond):
        cond = z3.simplify(cond)
        if z3.is_true(cond): return True
        if z3.is_false(cond): return False
        if self.i < len(self.prefix):
            d = self.prefix[self.i]
        else:
            t_ok = self.eng.feasible(self.pc + [cond])
            f_ok = self.eng.feasible(self.pc + [z3.Not(cond)])
            if t_ok and f_ok:
                self.stack.append(self.trace + [False])
                d = True
            elif t_ok: d = True
            elif f_ok: d = False
            else: raise PathAbort()
        self.i += 1
        self.trace.append(d)
        self.pc.append(cond if d else z3.Not(cond))
        return d

def is_sym(v):
    return isinstance(v, z3.ExprRef)

class Interp:
    def __init__(self, models, max_loop=64):
        self.models = models    # name/callable -> model callable(interp, br, *args, **kw)
        self.max_loop = max_loop

    def call_function(self, fn, args, kwargs, br):
        fn = inspect.unwrap(fn)
        src = textwrap.dedent(inspect.getsource(fn))
        fdef = ast.parse(src).body[0]
        env = dict(fn.__globals__)
        sig = inspect.signature(fn)
        ba = sig.bind(*args, **kwargs); ba.apply_defaults()
        local = dict(ba.arguments)
        try:
            self.exec_block(fdef.body, env, local, br)
        except _Return as r:
            return r.value
        return None

    def run(self, fn, args, br):
        try:
            v = self.call_function(fn, args, {}, br)
            return ('return', v)
        except Raised as r:
            return ('raise', r.exc_name)

    # statements
    def exec_block(self, stmts, env, local, br):
        for s in stmts:
            self.exec_stmt(s, env, local, br)

    def exec_stmt(self, s, env, local, br):
        if isinstance(s, ast.Expr):
            if isinstance(s.value, ast.Constant): return
            self.ev(s.value, env, local, br); return
        if isinstance(s, ast.Assign):
            v = self.ev(s.value, env, local, br)
            for t in s.targets: self.assign(t, v, env, local, br)
            return
        if isinstance(s, ast.AugAssign):
            cur = self.ev(s.target, env, local, br)
            v = self.binop(s.op, cur, self.ev(s.value, env, local, br), br)
            self.assign(s.target, v, env, local, br); return
        if isinstance(s, ast.If):
            c = self.truth(self.ev(s.test, env, local, br), br)
            self.exec_block(s.body if c else s.orelse, env, local, br); return
        if isinstance(s, ast.Return):
            raise _Return(self.ev(s.value, env, local, br) if s.value else None)
        if isinstance(s, ast.Raise):
            exc = s.exc
            name = exc.func if isinstance(exc, ast.Call) else exc
            nm = name.attr if isinstance(name, ast.Attribute) else name.id
            raise Raised(nm)
        if isinstance(s, ast.While):
            n = 0
            while self.truth(self.ev(s.test, env, local, br), br):
                n += 1
                if n > self.max_loop: raise Raised('UNWIND_EXCEEDED')
                self.exec_block(s.body, env, local, br)
            return
        if isinstance(s, ast.Pass): return
        raise NotImplementedError(ast.dump(s)[:200])

    def assign(self, t, v, env, local, br):
        if isinstance(t, ast.Name): local[t.id] = v
        elif isinstance(t, (ast.Tuple, ast.List)):
            for tt, vv in zip(t.elts, v): self.assign(tt, vv, env, local, br)
        else: raise NotImplementedError(ast.dump(t))

    # expressions
    def truth(self, v, br):
        if is_sym(v):
            if z3.is_bool(v): return br.decide(v)
            return br.decide(v != 0)
        if hasattr(v, '__sym_truth__'): return self.truth(v.__sym_truth__(), br)
        return bool(v)

    def ev(self, e, env, local, br):
        if isinstance(e, ast.Constant): return e.value
        if isinstance(e, ast.Name):
            if e.id in local: return local[e.id]
            if e.id in env: return env[e.id]
            import builtins
            return getattr(builtins, e.id)
        if isinstance(e, ast.Attribute):
            base = self.ev(e.value, env, local, br)
            return getattr(base, e.attr)
        if isinstance(e, ast.BinOp):
            return self.binop(e.op, self.ev(e.left, env, local, br), self.ev(e.right, env, local, br), br)
        if isinstance(e, ast.UnaryOp):
            v = self.ev(e.operand, env, local, br)
            if isinstance(e.op, ast.Not): return not self.truth(v, br)
            if isinstance(e.op, ast.USub): return -v
            if isinstance(e.op, ast.Invert): return -v - 1
            raise NotImplementedError
        if isinstance(e, ast.BoolOp):
            if isinstance(e.op, ast.And):
                v = True
                for x in e.values:
                    v = self.ev(x, env, local, br)
                    if not self.truth(v, br): return v
                return v
            else:
                v = False
                for x in e.values:
                    v = self.ev(x, env, local, br)
                    if self.truth(v, br): return v
                return v
        if isinstance(e, ast.Compare):
            left = self.ev(e.left, env, local, br)
            res = True
            for op, r in zip(e.ops, e.comparators):
                right = self.ev(r, env, local, br)
                c = self.cmp(op, left, right, br)
                if not self.truth(c, br): return False
                left = right
            return True
        if isinstance(e, ast.IfExp):
            return self.ev(e.body if self.truth(self.ev(e.test, env, local, br), br) else e.orelse, env, local, br)
        if isinstance(e, ast.Call):
            f = self.ev(e.func, env, local, br)
            args = [self.ev(a, env, local, br) for a in e.args]
            kw = {k.arg: self.ev(k.value, env, local, br) for k in e.keywords}
            return self.call(f, args, kw, br)
        if isinstance(e, ast.Subscript):
            base = self.ev(e.value, env, local, br)
            if isinstance(e.slice, ast.Slice):
                lo = self.ev(e.slice.lower, env, local, br) if e.slice.lower else None
                hi = self.ev(e.slice.upper, env, local, br) if e.slice.upper else None
                return base[lo:hi]
            idx = self.ev(e.slice, env, local, br)
            return base[idx]
        if isinstance(e, ast.Tuple): return tuple(self.ev(x, env, local, br) for x in e.elts)
        if isinstance(e, ast.List): return [self.ev(x, env, local, br) for x in e.elts]
        if isinstance(e, ast.JoinedStr): return '<fstring>'
        raise NotImplementedError(ast.dump(e)[:200])

    def call(self, f, args, kw, br):
        try:
            m = self.models.get(f)
        except TypeError:
            m = None
        if m is not None:
            return m(self, br, *args, **kw)
        if hasattr(getattr(f, '__self__', None), '__symbolic__'):
            return f(*args, **kw)
        if any(is_sym(a) or hasattr(a, '__symbolic__') for a in itertools.chain(args, kw.values())):
            if inspect.isfunction(f) and f.__module__.startswith('xlcalculator'):
                return self.call_function(f, args, kw, br)
            raise NotImplementedError(f'no model for {f} with symbolic args')
        return f(*args, **kw)

    def binop(self, op, a, b, br):
        if hasattr(a, '__symbolic__') or hasattr(b, '__symbolic__'):
            name = {ast.Add:'add', ast.Sub:'sub'}[type(op)]
            if hasattr(a, '__symbolic__'): return getattr(a, 'sym_'+name)(b, self, br)
            return getattr(b, 'sym_r'+name)(a, self, br)
        if isinstance(op, ast.Add):
            if is_sym(a) and is_sym(b) and a.sort() != b.sort(): a, b = _real(a), _real(b)
            return a + b
        if isinstance(op, ast.Sub): return a - b
        if isinstance(op, ast.Mult):
            if is_sym(a) and a.sort() == z3.RealSort() and not is_sym(b): b = z3.RealVal(b)
            return a * b
        if isinstance(op, ast.Div):
            if is_sym(b) and br.decide(b == 0): raise Raised('ZeroDivisionError')
            return _real(a) / _real(b) if is_sym(a) or is_sym(b) else a / b
        if isinstance(op, ast.Mod):
            if is_sym(a) or is_sym(b):
                if is_sym(a) and a.sort() == z3.RealSort():
                    # real % 1 -> fractional part
                    assert b == 1
                    return a - z3.ToReal(z3.ToInt(a))
                return a % b     # z3 mod for positive concrete divisor matches Python
            return a % b
        if isinstance(op, ast.LShift): return a * (2 ** b) if is_sym(a) else a << b
        if isinstance(op, ast.Pow): return a ** b
        if isinstance(op, ast.BitAnd):
            # x & mask / x & ~mask where mask is a single bit 2^k (concrete)
            if is_sym(a) and isinstance(b, int):
                if b >= 0 and (b & (b - 1)) == 0 and b > 0:   # single bit
                    return ((a / b) % 2) * b                  # z3 Int div/mod (a>=0 assumed by caller)
                if b < 0 and ((~b) & ((~b) - 1)) == 0:        # ~single bit
                    bit = ~b
                    return a - ((a / bit) % 2) * bit
            raise NotImplementedError('bitand')
        raise NotImplementedError(op)

    def cmp(self, op, a, b, br):
        if hasattr(a, '__symbolic__'): return a.sym_cmp(type(op).__name__, b)
        if isinstance(op, ast.Eq): return a == b
        if isinstance(op, ast.NotEq): return a != b
        if isinstance(op, ast.Lt): return a < b
        if isinstance(op, ast.LtE): return a <= b
        if isinstance(op, ast.Gt): return a > b
        if isinstance(op, ast.GtE): return a >= b
        if isinstance(op, ast.Is): return a is b
        if isinstance(op, ast.IsNot): return a is not b
        if isinstance(op, ast.In): return a in b
        raise NotImplementedError(op)

def _real(v):
    if is_sym(v):
        return z3.ToReal(v) if v.sort() == z3.IntSort() else v
    return z3.RealVal(v)

class _Return(Exception):
    def __init__(self, value): self.value = value
