import sys, time
sys.path.insert(0, '/tmp/probe/kt')
import z3
from kt import *
from xlcalculator.xlfunctions import engineering as E

BASE = {bin: 2, oct: 8, hex: 16}
class MStr:
    """digit string abstracted as (value, ndigits, base, prefixed, upper)"""
    __symbolic__ = True
    def __init__(self, value, nd, base, prefixed=False, upper=False):
        self.value, self.nd, self.base, self.prefixed, self.upper_ = value, nd, base, prefixed, upper
    def __getitem__(self, sl):
        assert isinstance(sl, slice) and sl.start == 2 and sl.stop is None and self.prefixed
        return MStr(self.value, self.nd, self.base, False, self.upper_)
    def upper(self): return MStr(self.value, self.nd, self.base, self.prefixed, True)
    def zfill(self, n): return MStr(self.value, z3.If(self.nd >= n, self.nd, n), self.base, self.prefixed, self.upper_)
def ndigits(v, base, br_pc, tag):
    nd = z3.Int('nd_' + tag)
    cons = [z3.Or(*[z3.And(nd == k, (v >= base ** (k - 1)) if k > 1 else (v >= 0), v < base ** k) for k in range(1, 42)])]
    return nd, cons
_cnt = [0]
def m_tostr(base):
    def f(it, br, v):
        _cnt[0] += 1
        if not is_sym(v): v = z3.IntVal(v)
        nd, cons = ndigits(v, base, br.pc, str(_cnt[0]))
        br.pc.extend(cons)        # definitional constraint (requires v >= 0; bin(negative) not modelled)
        br.pc.append(v >= 0)
        return MStr(v, nd, base, True, False)
    return f
def m_len(it, br, s):
    return s.nd if isinstance(s, MStr) else len(s)
models = {bin: m_tostr(2), oct: m_tostr(8), hex: m_tostr(16), len: m_len}
it = Interp(models)
def explore(fn, args, assumptions):
    eng = Engine(assumptions); t = time.time()
    ls = eng.explore(lambda br: it.run(fn, args, br))
    return ls, eng.queries, round(time.time() - t, 3)

v = z3.Int('v'); places = z3.Int('places')
for dest, W in ((bin, 10), (oct, 10), (hex, 10)):
    bound = E.BOUNDS[frozenset([E.dec, dest])]
    ls, q, t = explore(E.conversion, [v, E.dec, dest, places], [v >= -2**41, v <= 2**41, places >= 1, places <= 10])
    kinds = {}
    for l in ls: kinds[l.kind + ':' + (l.value if l.kind == 'raise' else 'str')] = kinds.get(l.kind + ':' + (l.value if l.kind == 'raise' else 'str'), 0) + 1
    print(dest.__name__, 'paths', len(ls), 'queries', q, t, kinds)
    b = BASE[dest]
    # reference: in window -> digits of (v mod b^10) ; padded to places if v>=0 ; error if places < ndigits
    def bad(l):
        inwin = z3.And(v >= -bound, v < bound)
        if l.kind == 'raise':
            # raising allowed iff out of window or (v>=0 and ndigits(v) > places)
            ok = z3.Or(z3.Not(inwin), z3.And(v >= 0, v >= b ** 0, z3.Or(*[z3.And(places == k, v >= b ** k) for k in range(1, 11)])))
            return z3.Not(ok) if l.value == 'NumExcelError' else z3.BoolVal(True)
        r = l.value
        refval = z3.If(v >= 0, v, v + b ** 10)
        return z3.Or(z3.Not(inwin), r.value != refval, z3.Not(z3.BoolVal(r.upper_)),
                     z3.And(v >= 0, r.nd != z3.If(r.nd >= places, r.nd, places)), z3.And(v >= 0, r.nd < places),
                     z3.And(v < 0, r.nd != 10))
    s = z3.Solver(); s.add(z3.Or(*[z3.And(l.pc, bad(l)) for l in ls]))
    t0 = time.time(); r = s.check(); print('  DEC2%s all v, all places:' % dest.__name__.upper(), r, round(time.time() - t0, 3), s.model() if r == z3.sat else '')
