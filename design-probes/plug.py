import sys; sys.path.insert(0, '/tmp/probe'); import xh_patches
