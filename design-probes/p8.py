from typing import List, Tuple, Union, Optional
import copy
from xlcalculator import ModelCompiler, Evaluator
from xlcalculator.xlfunctions import func_xltypes as T, xlerrors as XE, xl, text as TX, operator as O, math as M, statistics as S, lookup as L, logical as LG
F = xl.FUNCTIONS
ERR = [XE.NullExcelError, XE.DivZeroExcelError, XE.ValueExcelError, XE.RefExcelError, XE.NameExcelError, XE.NumExcelError, XE.NaExcelError]

def _mk(d):
    return ModelCompiler().read_and_parse_dict(dict(d))
def _val(x):
    return x.value if isinstance(x, T.ExcelType) else x

# (b) error propagation
def h_err_sum(e: int, a: int) -> bool:
    """
    pre: 0 <= e < 7
    post: _
    """
    err = ERR[e]()
    r = F['SUM'](a, err)
    return r is err

def h_err_round(e: int, a: int) -> bool:
    """
    pre: 0 <= e < 7
    post: _
    """
    err = ERR[e]()
    return F['ROUND'](err, a) is err and F['ROUND'](a, err) is err

def h_err_eq(e: int, a: int) -> bool:
    """
    pre: 0 <= e < 7
    post: _
    """
    err = ERR[e]()
    return F['OP_EQ'](err, T.Number(a)) is err

# (c) extract
ME = _mk({'A1': 1, 'A2': 2, 'B1': '=A1+A2', 'C1': '=B1*2'})
def h_extract(a: int, b: int) -> bool:
    """
    post: _
    """
    ME.cells['Sheet1!A1'].value = a
    ME.cells['Sheet1!A2'].value = b
    ex = ModelCompiler.extract(ME, ['Sheet1!B1'])
    return _val(Evaluator(ex).evaluate('Sheet1!B1')) == a + b

def h_extract2(a: int, b: int) -> bool:
    """
    post: _
    """
    ME.cells['Sheet1!A1'].value = a
    ME.cells['Sheet1!A2'].value = b
    ex = ModelCompiler.extract(ME, ['Sheet1!C1'])
    return _val(Evaluator(ex).evaluate('Sheet1!C1')) == (a + b) * 2

# (d) AND/OR
MA = _mk({'A1': 1, 'A2': 2, 'A3': 1, 'Z1': '=AND(A1,A2:A3)', 'Z2': '=OR(A1,A2:A3)'})
def h_and(a: Union[int, bool, None], b: Union[int, bool, None], c: Union[int, bool, None]) -> bool:
    """
    post: _
    """
    for k, v in zip(('A1','A2','A3'), (a,b,c)):
        MA.cells['Sheet1!'+k].value = v
    r = Evaluator(MA).evaluate('Sheet1!Z1')
    exp = all(bool(v) for v in (a,b,c) if v is not None)
    return _val(r) == exp

# (e) COUNTIF / MATCH
MC = _mk({'A1': 1, 'A2': 2, 'A3': 1, 'B1': 0, 'Z1': '=COUNTIF(A1:A3,">"&B1)', 'Z2': '=MATCH(B1,A1:A3,0)', 'Z3': '=COUNTIF(A1:A3,B1)'})
def h_countif(a: int, b: int, c: int, k: int) -> bool:
    """
    pre: -5 <= k <= 5
    post: _
    """
    for kk, v in zip(('A1','A2','A3','B1'), (a,b,c,k)):
        MC.cells['Sheet1!'+kk].value = v
    r = Evaluator(MC).evaluate('Sheet1!Z1')
    return _val(r) == sum(1 for v in (a,b,c) if v > k)

def h_countif_eq(a: int, b: int, c: int, k: int) -> bool:
    """
    post: _
    """
    for kk, v in zip(('A1','A2','A3','B1'), (a,b,c,k)):
        MC.cells['Sheet1!'+kk].value = v
    r = Evaluator(MC).evaluate('Sheet1!Z3')
    return _val(r) == sum(1 for v in (a,b,c) if v == k)

def h_match0(a: int, b: int, c: int, k: int) -> bool:
    """
    post: _
    """
    for kk, v in zip(('A1','A2','A3','B1'), (a,b,c,k)):
        MC.cells['Sheet1!'+kk].value = v
    r = Evaluator(MC).evaluate('Sheet1!Z2')
    exp = next((i + 1 for i, v in enumerate((a,b,c)) if v == k), None)
    if exp is None:
        return isinstance(r, XE.NaExcelError)
    return _val(r) == exp

# (f) text identities
def h_mid_left(s: str, n: int) -> bool:
    """
    pre: len(s) <= 4 and 0 <= n <= 6
    post: _
    """
    return _val(TX.MID(s, 1, n)) == _val(TX.LEFT(s, n)) == s[:n]

def h_find(t: str, s: str, p: int) -> bool:
    """
    pre: len(s) <= 4 and 1 <= len(t) <= 2 and 1 <= p <= len(s)
    post: _
    """
    r = TX.FIND(t, s, p)
    i = s.find(t, p - 1)
    if i < 0:
        return isinstance(r, XE.ValueExcelError)
    return _val(r) == i + 1

def h_replace(s: str, p: int, k: int, t: str) -> bool:
    """
    pre: len(s) <= 4 and len(t) <= 2 and 1 <= p <= 5 and 0 <= k <= 5
    post: _
    """
    r = TX.REPLACE(s, p, k, t)
    return _val(r) == s[:p-1] + t + s[p-1+k:]

# (g) casts
def h_cast_numtext(n: int) -> bool:
    """
    pre: -1000 < n < 1000
    post: _
    """
    return _val(T.Number.cast(str(n))) == n and _val(T.Number.cast(n)) == n and _val(T.Number.cast(T.Number(n))) == n

def h_cast_text_digits(s: str) -> bool:
    """
    pre: 1 <= len(s) <= 3 and all(c in '0123456789' for c in s)
    post: _
    """
    return _val(T.Number.cast(s)) == int(s)
