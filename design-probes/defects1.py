import traceback, sys
from xlcalculator import ModelCompiler, Evaluator, Model
from xlcalculator.xlfunctions import xl, func_xltypes as T, xlerrors
def ev(d, addr='Sheet1!Z1'):
    m = ModelCompiler().read_and_parse_dict(d)
    return Evaluator(m).evaluate(addr)
def t(label, f):
    try:
        r = f()
        print(label, '->', repr(r))
    except BaseException as e:
        print(label, 'EXC', type(e).__name__, str(e)[:200].replace('\n',' '))
# C01
t('=2^-1', lambda: ev({'Z1':'=2^-1'}))
t('=-2^2', lambda: ev({'Z1':'=-2^2'}))
t('=2^3^2', lambda: ev({'Z1':'=2^3^2'}))
t('=1&2+3', lambda: ev({'Z1':'=1&2+3'}))
t('=50%^2', lambda: ev({'Z1':'=50%^2'}))
t('=2^50%', lambda: ev({'Z1':'=2^50%'}))
t('=1<2=TRUE', lambda: ev({'Z1':'=1<2=TRUE'}))
t('=1/0', lambda: ev({'Z1':'=1/0'}))
t('=1E+2+1', lambda: ev({'Z1':'=1E+2+1'}))
t('=1.5E-1*2', lambda: ev({'Z1':'=1.5E-1*2'}))
t('=10E+2', lambda: ev({'Z1':'=10E+2'}))
t('=A1%', lambda: ev({'A1':5,'Z1':'=A1%'}))
t('=(A1)%', lambda: ev({'A1':5,'Z1':'=(A1)%'}))
t('=2*3%', lambda: ev({'Z1':'=2*3%'}))
t('=2^3%', lambda: ev({'Z1':'=2^3%'}))
t('=-3%', lambda: ev({'Z1':'=-3%'}))
t('=A1+1 ', lambda: ev({'A1':5,'Z1':'=A1+1 '}))
t('=A1&": "&B1', lambda: ev({'A1':5,'B1':6,'Z1':'=A1&": "&B1'}))
t('= 1 + 2', lambda: ev({'Z1':'= 1 + 2'}))
t('=( 1 + 2 )*3', lambda: ev({'Z1':'=( 1 + 2 )*3'}))
t('=SUM( 1 , 2 )', lambda: ev({'Z1':'=SUM( 1 , 2 )'}))
t('=2- -1', lambda: ev({'Z1':'=2- -1'}))
t('=2--1', lambda: ev({'Z1':'=2--1'}))
t('=2-+1', lambda: ev({'Z1':'=2-+1'}))
t('=-A1^2', lambda: ev({'A1':3,'Z1':'=-A1^2'}))
t('=2-3-4', lambda: ev({'Z1':'=2-3-4'}))
t('=2/3/4', lambda: ev({'Z1':'=2/3/4'}))
t('=1=1=1', lambda: ev({'Z1':'=1=1=1'}))
# C03
t('=$A$1*2', lambda: ev({'A1':5,'Z1':'=$A$1*2'}))
t('=A$1*2', lambda: ev({'A1':5,'Z1':'=A$1*2'}))
t('=SUM($A$1:$A$2)', lambda: ev({'A1':5,'A2':6,'Z1':'=SUM($A$1:$A$2)'}))
t('=Sheet1!A1', lambda: ev({'A1':5,'Z1':'=Sheet1!A1'}))
t("='Sheet1'!A1", lambda: ev({'A1':5,'Z1':"='Sheet1'!A1"}))
