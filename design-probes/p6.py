from typing import Optional, Union
from xlcalculator import parser as P, ast_nodes as N
from xlcalculator.xlfunctions import func_xltypes as T, xlerrors, xl, operator as O

def h_strlit(s: str) -> bool:
    """
    pre: len(s) <= 3
    post: _
    """
    f = '=A1&"' + s.replace('"', '""') + '"&B1'
    ast = P.FormulaParser().parse(f, {})
    # expect (A1 & "s") & B1
    if not (isinstance(ast, N.OperatorNode) and ast.tvalue == '&'):
        return False
    l = ast.left
    if not (isinstance(l, N.OperatorNode) and l.tvalue == '&'):
        return False
    lit = l.right
    return isinstance(lit, N.OperandNode) and lit.tsubtype == 'text' and lit.tvalue == s and l.left.tvalue == 'A1' and ast.right.tvalue == 'B1'

def h_strlit_nocolon(s: str) -> bool:
    """
    pre: len(s) <= 3 and not s.startswith(':') and ':OFFSET' not in s and ':INDEX' not in s
    post: _
    """
    return h_strlit(s)

V = Union[int, str, bool, None]
def _b(x):
    return bool(x.value) if isinstance(x, T.Boolean) else x

def h_trich(a: Union[int, str, bool], b: Union[int, str, bool]) -> bool:
    """
    pre: (not isinstance(a, str) or len(a) <= 2) and (not isinstance(b, str) or len(b) <= 2)
    post: _
    """
    lt = _b(O.OP_LT(a, b)); eq = _b(O.OP_EQ(a, b)); gt = _b(O.OP_GT(a, b))
    return (lt is True) + (eq is True) + (gt is True) == 1

def h_trich_same_int(a: int, b: int) -> bool:
    """
    post: _
    """
    lt = _b(O.OP_LT(a, b)); eq = _b(O.OP_EQ(a, b)); gt = _b(O.OP_GT(a, b))
    return (lt is True) + (eq is True) + (gt is True) == 1 and lt == (a < b)

def h_trich_str(a: str, b: str) -> bool:
    """
    pre: len(a) <= 2 and len(b) <= 2
    post: _
    """
    lt = _b(O.OP_LT(a, b)); eq = _b(O.OP_EQ(a, b)); gt = _b(O.OP_GT(a, b))
    return (lt is True) + (eq is True) + (gt is True) == 1 and lt == (a.upper() < b.upper())

def _x(v):
    return T.ExcelType.cast_from_native(v)

def h_trich2(a: Union[int, str, bool], b: Union[int, str, bool]) -> bool:
    """
    pre: (not isinstance(a, str) or len(a) <= 2) and (not isinstance(b, str) or len(b) <= 2)
    post: _
    """
    a = _x(a); b = _x(b)
    lt = _b(O.OP_LT(a, b)); eq = _b(O.OP_EQ(a, b)); gt = _b(O.OP_GT(a, b))
    return (lt is True) + (eq is True) + (gt is True) == 1

def h_antisym(a: Union[int, str, bool], b: Union[int, str, bool]) -> bool:
    """
    pre: (not isinstance(a, str) or len(a) <= 2) and (not isinstance(b, str) or len(b) <= 2)
    post: _
    """
    a = _x(a); b = _x(b)
    return _b(O.OP_LT(a, b)) == _b(O.OP_GT(b, a))
