"""CrossHair patches: float()/int() honour Python-level __float__/__int__ of xlcalculator types."""
import crosshair.core as _C
from crosshair.tracers import NoTracing, ResumedTracing
from crosshair.libimpl import builtinslib as B
from crosshair.util import CrossHairValue
from crosshair.core import realize, deep_realize

_MISSING = object()

def _is_xl(val):
    return getattr(type(val), '__module__', '').startswith('xlcalculator')

def _float(val=0.0):
    with NoTracing():
        if isinstance(val, B.SymbolicFloat):
            return val
        is_symbolic_str = isinstance(val, B.AnySymbolicStr)
        is_symbolic_int = isinstance(val, B.SymbolicInt)
        xl = _is_xl(val)
    if is_symbolic_str:
        match = B._FLOAT_REGEX.fullmatch(val)
        if match:
            ret = _float(int(match.group("intpart")))
            decimal_digits = match.group("fraction")
            if decimal_digits:
                denominator = realize(len(decimal_digits))
                ret += _float(int(decimal_digits)) / (10**denominator)
            if match.group("posneg") == "-":
                ret = -ret
            return ret
    elif is_symbolic_int:
        return val.__float__()
    elif xl:
        return type(val).__float__(val)
    return float(realize(val))

_orig_int_code = B._int
def _int(val=0, base=_MISSING):
    with NoTracing():
        xl = base is _MISSING and _is_xl(val)
        symf = base is _MISSING and isinstance(val, B.SymbolicFloat)
    if xl:
        return type(val).__int__(val)
    if symf:
        return val.__int__()
    with NoTracing():
        if isinstance(val, B.SymbolicInt):
            if base is not _MISSING:
                raise TypeError("int() can't convert non-string with explicit base")
            return val
        if isinstance(val, B.AnySymbolicStr):
            with ResumedTracing():
                if base is _MISSING:
                    base = 10
                if any([base < 2, base > 10, not val]):
                    return int(realize(val), base=realize(base))
                ret = 0
                for ch in val:
                    ch_num = ord(ch) - 48
                    if any((ch_num < 0, ch_num >= base)):
                        return int(realize(val), realize(base))
                    else:
                        ret = (ret * base) + ch_num
                return ret
        elif isinstance(val, CrossHairValue):
            val = deep_realize(val)
            if base is not _MISSING:
                base = deep_realize(base)
    return int(val) if base is _MISSING else int(val, base=base)

_C._PATCH_REGISTRATIONS[float] = _float
_C._PATCH_REGISTRATIONS[int] = _int
