from typing import List, Tuple, Union, Optional
import sys
import openpyxl
from openpyxl.workbook.defined_name import DefinedName
from xlcalculator import ModelCompiler, Evaluator, patch, reader as R, xltypes
from xlcalculator.xlfunctions import func_xltypes as T, xlerrors as XE, xl
def _val(x):
    return x.value if isinstance(x, T.ExcelType) else x

def _book(a, b, cached):
    wb = openpyxl.Workbook()
    ws1 = wb.active; ws1.title = 'Sheet1'
    ws2 = wb.create_sheet("My Sheet")
    def put(ws, row, col, value, dtype, cvalue=None):
        c = patch.Cell(ws, row=row, column=col)
        c._value = value; c.data_type = dtype
        if dtype == 'f': c.cvalue = cvalue
        ws._cells[(row, col)] = c
    put(ws1, 1, 1, a, 'n'); put(ws1, 2, 1, b, 'n')
    put(ws1, 1, 2, '=A1+A2', 'f', cached)
    put(ws2, 1, 1, "=Sheet1!B1*2", 'f', None)
    wb.defined_names['total'] = DefinedName('total', attr_text='Sheet1!$B$1')
    return wb

def h_adapter(a: int, b: int, cached: int, ign: bool) -> bool:
    """
    post: _
    """
    rd = R.Reader('mem'); rd.book = _book(a, b, cached)
    mc = ModelCompiler()
    mc.parse_archive(rd, ignore_sheets=(['My Sheet'] if ign else []))
    mc.model.build_code()
    m = mc.model
    if ('My Sheet!A1' in m.cells) == ign:
        return False
    if m.get_cell_value('Sheet1!B1') != cached:
        return False
    ev = Evaluator(m)
    if _val(ev.evaluate('Sheet1!B1')) != a + b:
        return False
    if _val(ev.evaluate('total')) != a + b:
        return False
    if not ign and _val(ev.evaluate('My Sheet!A1')) != (a + b) * 2:
        return False
    return True

# C06-like: symbolic selection among pre-parsed formulas
def _parse(f):
    x = xltypes.XLFormula(f, sheet_name='Sheet1')
    from xlcalculator import parser
    x.ast = parser.FormulaParser().parse(f, {})
    return x
NAMES = ['A1', 'A2', 'A3']
ALT = {n: [None] + [_parse('=' + t) for t in NAMES] + [_parse('=%s+%s' % (NAMES[0], NAMES[1]))] for n in NAMES}
MG = ModelCompiler().read_and_parse_dict({'A1': 1, 'A2': 2, 'A3': 3})
def _reach_cycle(g, start):
    # g: list of lists of successors
    color = {}
    def dfs(u):
        color[u] = 1
        for v in g[u]:
            if color.get(v) == 1: return True
            if v not in color and dfs(v): return True
        color[u] = 2
        return False
    return dfs(start)
def h_graph(c0: int, c1: int, c2: int, v: int) -> bool:
    """
    pre: 0 <= c0 <= 4 and 0 <= c1 <= 4 and 0 <= c2 <= 4
    post: _
    """
    sys.setrecursionlimit(max(sys.getrecursionlimit(), 3000))
    g = []
    for i, c in enumerate((c0, c1, c2)):
        cell = MG.cells['Sheet1!' + NAMES[i]]
        if c == 0: cell.formula = None; cell.value = v; g.append([])
        elif c == 1: cell.formula = ALT[NAMES[i]][1]; g.append([0])
        elif c == 2: cell.formula = ALT[NAMES[i]][2]; g.append([1])
        elif c == 3: cell.formula = ALT[NAMES[i]][3]; g.append([2])
        else: cell.formula = ALT[NAMES[i]][4]; g.append([0, 1])
    cyc = _reach_cycle(g, 0)
    if cyc:
        return True   # (cyclic case handled separately under recursion guard)
    r = Evaluator(MG).evaluate('Sheet1!A1')
    return isinstance(r, T.Number)

WB = _book(1, 2, 3)
def h_adapter2(a: int, b: int, cached: int, ign: bool) -> bool:
    """
    post: _
    """
    ws1 = WB['Sheet1']
    ws1._cells[(1, 1)]._value = a
    ws1._cells[(2, 1)]._value = b
    ws1._cells[(1, 2)].cvalue = cached
    rd = R.Reader('mem'); rd.book = WB
    mc = ModelCompiler()
    mc.parse_archive(rd, ignore_sheets=(['My Sheet'] if ign else []))
    mc.model.build_code()
    m = mc.model
    if ('My Sheet!A1' in m.cells) == ign:
        return False
    if m.get_cell_value('Sheet1!B1') != cached:
        return False
    ev = Evaluator(m)
    if _val(ev.evaluate('Sheet1!B1')) != a + b:
        return False
    if _val(ev.evaluate('total')) != a + b:
        return False
    if not ign and _val(ev.evaluate('My Sheet!A1')) != (a + b) * 2:
        return False
    return True
