import z3, time
# x = nearest double to k/100 for integer k in [100, 999]; TRUNC(x,2) = trunc(x*100)/100 in doubles; claim: trunc(x*100) == k
k = z3.Int('k')
rm = z3.RNE()
D = z3.Float64()
x = z3.fpRealToFP(rm, z3.ToReal(k) / 100, D)
p = z3.fpMul(rm, x, z3.FPVal(100.0, D))
t = z3.fpRoundToIntegral(z3.RTZ(), p)
s = z3.Solver(); s.set('timeout', 60000)
s.add(k >= 100, k <= 999)
s.add(z3.Not(z3.fpEQ(t, z3.fpRealToFP(rm, z3.ToReal(k), D))))
t0 = time.time(); r = s.check(); print('z3', r, round(time.time()-t0,2), s.model() if r == z3.sat else s.reason_unknown() if r == z3.unknown else '')
