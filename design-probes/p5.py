from typing import Optional, Union
from xlcalculator import ModelCompiler, Evaluator
from xlcalculator.xlfunctions import func_xltypes as T, xlerrors, xl
from xlcalculator import tokenizer
from xlcalculator.xlfunctions import utils as U, date as D, engineering as E, text as TX

def _mk(d):
    return ModelCompiler().read_and_parse_dict(d)

MS = _mk({'A1': 1, 'B1': 1, 'A2': 1, 'B2': 1, 'Z1': '=SUM(A1:B2)', 'Z2': '=MAX(A1:B2)', 'Z3':'=COUNT(A1:B2)', 'Z4': '=AVERAGE(A1:B2)'})
def h_sum_range(a: int, b: int, c: int, d: int) -> bool:
    """
    post: _
    """
    m = MS
    for k, v in zip(('A1','B1','A2','B2'), (a,b,c,d)):
        m.cells['Sheet1!'+k].value = v
    r = Evaluator(m).evaluate('Sheet1!Z1')
    return isinstance(r, T.Number) and r.value == a+b+c+d

def h_max_range(a: int, b: int, c: int, d: int) -> bool:
    """
    post: _
    """
    m = MS
    for k, v in zip(('A1','B1','A2','B2'), (a,b,c,d)):
        m.cells['Sheet1!'+k].value = v
    r = Evaluator(m).evaluate('Sheet1!Z2')
    return isinstance(r, T.Number) and r.value == max(a,b,c,d)

def h_sum_mixed(a: Union[int, str, None], b: Union[int, str, None]) -> bool:
    """
    pre: (not isinstance(a, str) or len(a) <= 2) and (not isinstance(b, str) or len(b) <= 2)
    post: _
    """
    m = MS
    for k, v in zip(('A1','B1','A2','B2'), (a,b,3,4)):
        m.cells['Sheet1!'+k].value = v
    r = Evaluator(m).evaluate('Sheet1!Z1')
    exp = 7 + (a if isinstance(a, int) else 0) + (b if isinstance(b, int) else 0)
    return isinstance(r, T.Number) and r.value == exp

def h_left_right(s: str, n: int) -> bool:
    """
    pre: len(s) <= 4 and 0 <= n <= len(s)
    post: _
    """
    l = TX.LEFT(s, n); r = TX.RIGHT(s, len(s) - n)
    return isinstance(l, T.Text) and isinstance(r, T.Text) and l.value + r.value == s

def h_col(n: int) -> bool:
    """
    pre: 1 <= n <= 18278
    post: _
    """
    return tokenizer.col2num(tokenizer.num2col(n)) == n

def h_year(n: int) -> bool:
    """
    pre: 61 <= n <= 2958465
    post: _
    """
    import datetime
    ref = datetime.date(1899, 12, 30) + datetime.timedelta(days=n)
    y = D.YEAR(n)
    return isinstance(y, T.Number) and y.value == ref.year

def h_dec2bin(n: int) -> bool:
    """
    pre: -512 <= n <= 511
    post: _
    """
    r = E.DEC2BIN(n)
    exp = format(n if n >= 0 else n + 1024, 'b')
    return isinstance(r, T.Text) and r.value == exp

def h_bin2dec(s: str) -> bool:
    """
    pre: 1 <= len(s) <= 10 and all(c in '01' for c in s)
    post: _
    """
    r = E.BIN2DEC(s)
    v = int(s, 2)
    if len(s) == 10 and s[0] == '1':
        v -= 1024
    return isinstance(r, T.Number) and r.value == v
