from typing import List, Tuple
from xlcalculator import ModelCompiler, Evaluator
from xlcalculator.xlfunctions import func_xltypes as T, xlerrors, xl

SPEC = {'A1': 1, 'A2': 2, 'B1': '=A1+A2', 'C1': '=B1*2', 'D1': '=SUM(A1:A2)+C1', 'E1': '=B1+C1'}
CELLS = ['A1', 'A2', 'B1', 'C1', 'D1', 'E1']
def _mk(d):
    return ModelCompiler().read_and_parse_dict(dict(d))

def _val(x):
    return x.value if isinstance(x, T.ExcelType) else x

def h_hist(ops: List[Tuple[int, int, int]]) -> bool:
    """
    pre: len(ops) <= 3 and all(0 <= o[0] <= 1 and 0 <= o[1] < 6 for o in ops)
    post: _
    """
    m = _mk(SPEC)
    ev = Evaluator(m)
    cur = dict(SPEC)
    for kind, idx, v in ops:
        if kind == 0:
            addr = CELLS[idx % 2]      # inputs only
            ev.set_cell_value('Sheet1!' + addr, v)
            cur[addr] = v
        else:
            addr = CELLS[idx]
            got = ev.evaluate('Sheet1!' + addr)
            fresh = Evaluator(_mk(cur)).evaluate('Sheet1!' + addr)
            if _val(got) != _val(fresh):
                return False
            if _val(ev.get_cell_value('Sheet1!' + addr)) != _val(fresh):
                return False
    return True

CALLS = []
def SPY(tag):
    CALLS.append(int(tag))
    return 7
MI = _mk({'A1': True, 'Z1': '=IF(A1,SPY(1),SPY(2))', 'Z2': '=IF(A1,5)'})
def h_if(c: bool) -> bool:
    """
    post: _
    """
    ns = xl.FUNCTIONS.copy(); ns['SPY'] = SPY
    CALLS.clear()
    MI.cells['Sheet1!A1'].value = c
    r = Evaluator(MI, ns).evaluate('Sheet1!Z1')
    return CALLS == ([1] if c else [2]) and r.value == 7
