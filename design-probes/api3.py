import sys, time
sys.path.insert(0, '/tmp/probe')
import crosshair.core_and_libs, xh_patches
from crosshair.core import analyze_function, run_checkables
from crosshair.options import AnalysisOptionSet, AnalysisKind
import importlib
modname, fn = sys.argv[2].split(':')
mod = importlib.import_module(modname)
opts = AnalysisOptionSet(per_condition_timeout=float(sys.argv[1]), report_all=True, analysis_kind=[AnalysisKind.PEP316])
t = time.time()
msgs = list(run_checkables(analyze_function(getattr(mod, fn), opts)))
print(sys.argv[2], round(time.time()-t, 2), [(m.state.name, m.message[:300]) for m in msgs], flush=True)
