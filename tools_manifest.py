#!/usr/bin/env python3
"""Regenerates MANIFEST.json from the table below (kept in one place so it stays valid)."""
import json, os, subprocess
ROOT = os.path.dirname(os.path.abspath(__file__))

LEVEL = 'model_checking'
CHECKS = {}   # filled by props/*: PROP -> dict(text=..., note=..., technique=..., design_ref=...)
NA = {}

def load():
    import importlib.util
    spec = importlib.util.spec_from_file_location('manifest_table', os.path.join(ROOT, 'manifest_table.py'))
    m = importlib.util.module_from_spec(spec); spec.loader.exec_module(m)
    return m

def main():
    t = load()
    repo_commits = t.HOOK_COMMITS
    checks = []
    for pid in sorted(t.CHECKS):
        c = t.CHECKS[pid]
        checks.append({
            'property_id': pid,
            'quick_cmd': f'bin/check {pid} --tier quick',
            'thorough_cmd': f'bin/check {pid} --tier thorough',
            'evidence_file': f'/verif/evidence/{pid}.json',
            'replay_cmd_template': f'bin/check {pid} --replay {{path}}',
            'engine': c.get('engine', 'XH'),
            'level_claimed': {'category': LEVEL, 'text': c['text'], 'design_ref': c.get('design_ref', f'DESIGN.md §4 {pid}')},
            'level_note': c['note'],
            'technique': c['technique'],
        })
    m = {
        'version': 1,
        'setup_cmd': 'bin/ensure-env',
        'hooks': {'guard': 'XLCALCULATOR_VERIF', 'enable': 'no source hook is needed: all instrumentation is applied from the harness side (bin/check sets XLCALCULATOR_VERIF=1, which /repo never reads)',
                  'baseline_off_cmd': 'bin/baseline-check', 'source_commits': repo_commits, 'add_only': True},
        'engines': [
            {'name': 'XH', 'path': 'vf/xh.py', 'serves_properties': sorted(p for p in t.CHECKS if 'XH' in t.CHECKS[p].get('engine', 'XH')),
             'kind_free_text': 'CrossHair 0.0.110 symbolic execution of the real xlcalculator modules; z3 decides every path; counterexamples replayed natively'},
            {'name': 'KT', 'path': 'kt/kt.py', 'serves_properties': sorted(p for p in t.CHECKS if 'KT' in t.CHECKS[p].get('engine', '')),
             'kind_free_text': 'kernel translator: real function source (inspect.getsource -> ast) interpreted symbolically into z3 terms with path forking; one unsat/sat query per obligation'},
        ],
        'checks': checks,
        'notes': t.NOTES,
        'not_applicable': [{'property_id': k, 'reason': v} for k, v in sorted(t.NA.items())],
    }
    json.dump(m, open(os.path.join(ROOT, 'MANIFEST.json'), 'w'), indent=1)
    import jsonschema
    jsonschema.validate(m, json.load(open('/root/.vp/MANIFEST.schema.json')))
    print('MANIFEST.json written:', len(checks), 'checks,', len(t.NA), 'not applicable')

if __name__ == '__main__':
    main()
