"""Library models for the kernel translator (the trusted base of KT obligations; each a few lines).

Digit strings, the str/int/bin/oct/hex/len/set builtins on them, and stand-ins for xlcalculator's Number/Text/Blank
arguments that carry z3 terms.
"""
import z3

from kt.kt import Raised, Unsupported, is_sym, is_model
from xlcalculator.xlfunctions import func_xltypes as T


class MChars:
    """A string of concrete length whose characters are z3 Int code points."""
    __symbolic__ = True

    def __init__(self, codes):
        self.codes = list(codes)

    def __len__(self):
        return len(self.codes)

    def __sym_truth__(self):
        return len(self.codes) > 0


class MCharSetDiff:
    """set(chars) - permitted: truthy iff some character is not permitted."""
    __symbolic__ = True

    def __init__(self, chars, permitted):
        self.chars, self.permitted = chars, permitted

    def __sym_truth__(self):
        allowed = sorted(ord(c) for c in self.permitted)
        bad = [z3.And(*[c != a for a in allowed]) for c in self.chars.codes]
        return z3.Or(*bad) if bad else False


class MCharSet:
    __symbolic__ = True

    def __init__(self, chars):
        self.chars = chars

    def sym_sub(self, other, it, br):
        return MCharSetDiff(self.chars, other)


def digit_value(code):
    """Value of a hexadecimal digit character (0-9, A-F, a-f)."""
    return z3.If(z3.And(code >= 48, code <= 57), code - 48,
                 z3.If(z3.And(code >= 65, code <= 70), code - 55,
                       z3.If(z3.And(code >= 97, code <= 102), code - 87, -1)))


class MNumStr:
    """Canonical digits of a non-negative integer `value` in `base`, left-padded with zeros to `nd` digits."""
    __symbolic__ = True

    def __init__(self, value, base, nd, prefixed=False, upper=False):
        self.value, self.base, self.nd, self.prefixed, self.upper_ = value, base, nd, prefixed, upper

    def __getitem__(self, sl):
        if not (isinstance(sl, slice) and sl.start == 2 and sl.stop is None and self.prefixed):
            raise Unsupported('only the [2:] slice of bin()/oct()/hex() output is modelled')
        return MNumStr(self.value, self.base, self.nd, False, self.upper_)

    def upper(self):
        return MNumStr(self.value, self.base, self.nd, self.prefixed, True)

    def zfill(self, n):
        if self.prefixed:
            raise Unsupported('zfill on a prefixed string')
        nd = z3.If(self.nd >= n, self.nd, n) if (is_sym(n) or is_sym(self.nd)) else max(self.nd, n)
        return MNumStr(self.value, self.base, nd, False, self.upper_)


class MNumber(T.Number):
    """Stand-in for a whole Number argument whose value is a z3 Int."""
    __symbolic__ = True
    __slots__ = ('ival',)

    def __new__(cls, ival):
        inst = object.__new__(cls)
        inst.ival = ival
        return inst

    @property
    def is_decimal(self):
        return False

    @property
    def value(self):
        raise Unsupported('raw .value of a symbolic Number')


class MText(T.Text):
    """Stand-in for a Text argument: characters are z3 Int code points, the length is concrete."""
    __symbolic__ = True
    __slots__ = ('chars',)

    def __new__(cls, codes):
        inst = object.__new__(cls)
        inst.chars = MChars(codes)
        return inst

    def __sym_truth__(self):
        return len(self.chars) > 0


class MBlank(T.Blank):
    __symbolic__ = True

    def __new__(cls):
        return object.__new__(cls)


_counter = [0]


def fresh(prefix):
    _counter[0] += 1
    return z3.Int(f'{prefix}_{_counter[0]}')


def m_int(it, br, v=0, base=None):
    if isinstance(v, MNumber):
        return v.ival
    if isinstance(v, MBlank):
        return 0
    if isinstance(v, MChars):
        if base is None:
            base = 10
        # int(str, base) raises ValueError on a character that is not a digit of the base (or on the empty string)
        if len(v) == 0:
            raise Raised('ValueError')
        vals = [digit_value(c) for c in v.codes]
        ok = z3.And(*[z3.And(d >= 0, d < base) for d in vals])
        if not br.decide(ok):
            raise Raised('ValueError')
        total = z3.IntVal(0)
        for d in vals:
            total = total * base + d
        return total
    if is_sym(v):
        if v.sort() == z3.IntSort():
            return v
        fl = z3.ToInt(v)
        return z3.If(v >= 0, fl, z3.If(z3.ToReal(fl) == v, fl, fl + 1))      # truncation toward zero
    if is_model(v):
        raise Unsupported(f'int() of {type(v).__name__}')
    return int(v) if base is None else int(v, base)


def m_str(it, br, v=''):
    if isinstance(v, MText):
        return v.chars
    if isinstance(v, MChars):
        return v
    if is_sym(v) and v.sort() == z3.IntSort():
        # decimal rendering of an integer: fork on the number of digits (1..12) and the sign
        neg = br.decide(v < 0)
        a = -v if neg else v
        for L in range(1, 13):
            if br.decide(a < 10 ** L):
                codes = [48 + (a / (10 ** (L - 1 - i))) % 10 for i in range(L)]
                return MChars(([z3.IntVal(45)] if neg else []) + codes)
        raise Unsupported('integer with more than 12 digits rendered by str()')
    if is_model(v):
        raise Unsupported(f'str() of {type(v).__name__}')
    return str(v)


def m_len(it, br, s):
    if isinstance(s, MChars):
        return len(s)
    if isinstance(s, MNumStr):
        return s.nd
    return len(s)


def m_set(it, br, s=()):
    if isinstance(s, MChars):
        return MCharSet(s)
    return set(s)


def m_tostr(base):
    def f(it, br, v):
        if not is_sym(v):
            v = z3.IntVal(v)
        if br.decide(v < 0):
            raise Raised('MODEL_NEGATIVE_TO_BASE_STRING')          # bin(-5) = '-0b101' is not modelled: reported, never assumed away
        nd = fresh('nd')
        br.assume(z3.Or(*[z3.And(nd == k, (v >= base ** (k - 1)) if k > 1 else (v >= 0), v < base ** k) for k in range(1, 43)]))
        return MNumStr(v, base, nd, True, False)
    return f


def m_divmod(it, br, a, b):
    from kt.kt import floor_div, py_mod, is_int_term
    if is_sym(a) or is_sym(b):
        if not (is_int_term(a) and is_int_term(b)):
            raise Unsupported('divmod on reals')
        if is_sym(b):
            if br.decide(b == 0):
                raise Raised('ZeroDivisionError')
        elif b == 0:
            raise Raised('ZeroDivisionError')
        return (floor_div(a, b), py_mod(a, b))
    return divmod(a, b)


def m_isinstance(it, br, obj, cls):
    return isinstance(obj, cls)


DIGIT_MODELS = {int: m_int, str: m_str, len: m_len, set: m_set, bin: m_tostr(2), oct: m_tostr(8), hex: m_tostr(16), isinstance: m_isinstance, divmod: m_divmod}
