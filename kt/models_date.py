"""Date/time library models for the kernel translator (trusted base of the C18 obligations).

datetime.datetime = (proleptic Gregorian ordinal: Int, seconds of the day: Real); timedelta = (days: Int, seconds: Real in
[0, 86400)); calendar fields are uninterpreted functions of the ordinal (so two results agree iff their ordinals agree) or,
where month arithmetic is needed, fresh (year, month, day) variables tied to the ordinal by the explicit days-from-civil
formula; dateutil.relativedelta and rrule(DAILY) by their documented semantics.
"""
import datetime

import z3

from kt.kt import Raised, Unsupported, is_sym, is_model, to_real
from kt import models as MD

F_YEAR = z3.Function('cal_year', z3.IntSort(), z3.IntSort())
F_MONTH = z3.Function('cal_month', z3.IntSort(), z3.IntSort())
F_DAY = z3.Function('cal_day', z3.IntSort(), z3.IntSort())
F_ISOWEEK = z3.Function('cal_isoweek', z3.IntSort(), z3.IntSort())
F_ISOYEAR = z3.Function('cal_isoyear', z3.IntSort(), z3.IntSort())


def zint(v):
    return z3.IntVal(v) if isinstance(v, int) else v


def is_leap(y):
    return z3.And(y % 4 == 0, z3.Or(y % 100 != 0, y % 400 == 0))


def month_days(y, m):
    return z3.If(m == 2, z3.If(is_leap(y), 29, 28), z3.If(z3.Or(m == 4, m == 6, m == 9, m == 11), 30, 31))


_CUM = [0, 31, 59, 90, 120, 151, 181, 212, 243, 273, 304, 334]


def days_before_month(y, m):
    e = z3.IntVal(_CUM[11])
    for k in range(11, 0, -1):
        e = z3.If(m == k, _CUM[k - 1], e)
    return e + z3.If(z3.And(m > 2, is_leap(y)), 1, 0)


def dfc(y, m, d):
    """days-from-civil: proleptic Gregorian ordinal of (y, m, d), as datetime.date.toordinal()."""
    y1 = y - 1
    return y1 * 365 + y1 / 4 - y1 / 100 + y1 / 400 + days_before_month(y, m) + d      # z3 '/' on Ints is floor for positive divisors


MAX_ORD = datetime.date(9999, 12, 31).toordinal()


class MDT:
    __symbolic__ = True

    def __init__(self, ordinal, sec):
        self.ordinal, self.sec = zint(ordinal), to_real(sec)

    # arithmetic
    def sym_add(self, other, it, br):
        if isinstance(other, MTD):
            tot = self.sec + other.sec
            carry = z3.ToInt(tot / 86400)
            return MDT(self.ordinal + other.days + carry, tot - z3.ToReal(carry) * 86400)
        if isinstance(other, MRelDelta):
            return other.apply(self, it, br)
        raise Unsupported('datetime + ' + type(other).__name__)

    def sym_radd(self, other, it, br):
        return lift(other).sym_add(self, it, br)

    def sym_sub(self, other, it, br):
        if isinstance(other, (MDT, datetime.datetime)):
            o = lift(other)
            d = self.sec - o.sec
            carry = z3.ToInt(d / 86400)                      # floor
            return MTD(self.ordinal - o.ordinal + carry, d - z3.ToReal(carry) * 86400)
        raise Unsupported('datetime - ' + type(other).__name__)

    def sym_rsub(self, other, it, br):
        return lift(other).sym_sub(self, it, br)

    def sym_cmp(self, opname, other, it, br):
        o = lift(other)
        a = z3.ToReal(self.ordinal) * 86400 + self.sec
        b = z3.ToReal(o.ordinal) * 86400 + o.sec
        return {'Lt': a < b, 'LtE': a <= b, 'Gt': a > b, 'GtE': a >= b, 'Eq': a == b, 'NotEq': a != b}[opname]

    def sym_rcmp(self, opname, other, it, br):
        flip = {'Lt': 'Gt', 'LtE': 'GtE', 'Gt': 'Lt', 'GtE': 'LtE', 'Eq': 'Eq', 'NotEq': 'NotEq'}[opname]
        return self.sym_cmp(flip, other, it, br)

    # calendar
    def strftime(self, fmt):
        if fmt == '%d':
            return MField(F_DAY(self.ordinal))
        if fmt == '%m':
            return MField(F_MONTH(self.ordinal))
        if fmt == '%Y':
            return MField(F_YEAR(self.ordinal))
        raise Unsupported('strftime ' + fmt)

    def weekday(self):
        return (self.ordinal + 6) % 7

    # calendar fields as attributes: uninterpreted functions of the ordinal; an obligation that needs their arithmetic ties them
    # to the ordinal with the days-from-civil formula in its assumptions (see civil_axioms)
    @property
    def year(self):
        return F_YEAR(self.ordinal)

    @property
    def month(self):
        return F_MONTH(self.ordinal)

    @property
    def day(self):
        return F_DAY(self.ordinal)

    def isocalendar(self):
        return (F_ISOYEAR(self.ordinal), F_ISOWEEK(self.ordinal), (self.ordinal + 6) % 7 + 1)

    def civil(self, br):
        """Fresh (year, month, day) with dfc(year, month, day) = ordinal (exists uniquely for every ordinal)."""
        y, m, d = MD.fresh('cy'), MD.fresh('cm'), MD.fresh('cd')
        br.assume(z3.And(y >= 1, y <= 9999 + 2, m >= 1, m <= 12, d >= 1, d <= month_days(y, m), dfc(y, m, d) == self.ordinal))
        return y, m, d


def civil_axioms(ordinal, y, m, d):
    """(y, m, d) are the calendar fields of `ordinal`, also as seen through the attribute / strftime functions."""
    return z3.And(y >= 1, y <= 9999, m >= 1, m <= 12, d >= 1, d <= month_days(y, m), dfc(y, m, d) == ordinal,
                  F_YEAR(ordinal) == y, F_MONTH(ordinal) == m, F_DAY(ordinal) == d)


class MField:
    """Result of strftime('%d'|'%m'|'%Y'): only int() of it is modelled."""
    __symbolic__ = True

    def __init__(self, term):
        self.term = term


class MTD:
    __symbolic__ = True

    def __init__(self, days, sec):
        self.days_, self.sec = zint(days), to_real(sec)

    @property
    def days(self):
        return self.days_

    @property
    def seconds(self):
        return z3.ToInt(self.sec)

    def total_seconds(self):
        return z3.ToReal(self.days_) * 86400 + self.sec

    def sym_radd(self, other, it, br):
        return lift(other).sym_add(self, it, br)


def lift(dt):
    if isinstance(dt, MDT):
        return dt
    if isinstance(dt, datetime.datetime):
        return MDT(z3.IntVal(dt.toordinal()), z3.RealVal(dt.hour * 3600 + dt.minute * 60 + dt.second))
    raise Unsupported('not a datetime: ' + repr(dt))


def m_timedelta(it, br, days=0, seconds=0):
    days = zint(days)
    seconds = to_real(seconds)
    carry = z3.ToInt(seconds / 86400)
    return MTD(days + carry, seconds - z3.ToReal(carry) * 86400)


class MRelDelta:
    """dateutil.relativedelta(years=, months=, days=, day=): add years/months (normalised), clip the day to the month's length,
    then add days; `day=` is an absolute day of month, clipped likewise (documented semantics)."""
    __symbolic__ = True

    def __init__(self, years=0, months=0, days=0, day=None):
        self.years, self.months, self.days, self.day = zint(years), zint(months), zint(days), day

    def apply(self, dt, it, br):
        y, m, d = dt.civil(br)
        total = (y + self.years) * 12 + (m - 1) + self.months
        ny, nm = total / 12, total % 12 + 1                   # total >= 12 in all uses (years >= 1): z3 div = floor
        if self.day is not None:
            d = zint(self.day)
        nd = z3.If(d > month_days(ny, nm), month_days(ny, nm), d)
        o = dfc(ny, nm, nd) + self.days
        # datetime cannot represent anything outside 0001-01-01 .. 9999-12-31 (OverflowError / ValueError)
        if br.decide(z3.Or(ny > 9999, ny < 1, o > MAX_ORD, o < 1)):
            raise Raised('OverflowError')
        return MDT(o, dt.sec)

    def sym_radd(self, other, it, br):
        return self.apply(lift(other), it, br)


def m_relativedelta(it, br, years=0, months=0, days=0, day=None):
    return MRelDelta(years, months, days, day)


class MRule:
    """rrule.rrule(DAILY, dtstart, until): the list of days from dtstart through until."""
    __symbolic__ = True

    def __init__(self, n):
        self.n = n


RRULE_UNROLL = {'MONTHLY': 14, 'YEARLY': 5}


def m_rrule(it, br, freq, dtstart=None, until=None):
    from dateutil import rrule
    a, b = lift(dtstart), lift(until)
    if freq in (rrule.MONTHLY, rrule.YEARLY):
        # RFC 5545 / dateutil: occurrences are dtstart moved by k months (years) keeping the day of the month; a k whose month
        # has no such day is SKIPPED (not clipped).  Bounded unrolling with an unwinding assertion.
        monthly = freq == rrule.MONTHLY
        K_ = RRULE_UNROLL['MONTHLY' if monthly else 'YEARLY']
        y, m, d = a.civil(br)
        step = 1 if monthly else 12
        terms = []
        for k in range(K_ + 2):
            total = y * 12 + (m - 1) + k * step
            yk, mk = total / 12, total % 12 + 1
            if k == K_ + 1:
                if br.decide(z3.And(yk <= 9999, dfc(yk, mk, 1) <= b.ordinal)):
                    raise Raised('UNWIND_EXCEEDED')
                break
            terms.append(z3.If(z3.And(yk <= 9999, d <= month_days(yk, mk), dfc(yk, mk, z3.If(d <= month_days(yk, mk), d, 1)) <= b.ordinal), 1, 0))
        return MRule(z3.Sum(terms))
    if freq != rrule.DAILY:
        raise Unsupported('rrule frequency other than DAILY / MONTHLY / YEARLY')
    # both at the same time of day in all uses: count = days between + 1 (0 if until < dtstart)
    n = b.ordinal - a.ordinal + 1
    return MRule(z3.If(n < 0, 0, n))


def m_list(it, br, x=()):
    if isinstance(x, MRule):
        return x
    return list(x)


def m_len(it, br, s):
    if isinstance(s, MRule):
        return s.n
    return MD.m_len(it, br, s)


def m_int(it, br, v=0, base=None):
    if isinstance(v, MField):
        return v.term
    if isinstance(v, MXlDateTime):
        return MD.m_int(it, br, v.to_number(it, br))
    return MD.m_int(it, br, v, base)


from xlcalculator.xlfunctions import func_xltypes as T  # noqa: E402
from xlcalculator.xlfunctions import utils as XU  # noqa: E402


class MXlDateTime(T.DateTime):
    """Stand-in for a DateTime argument (what validate_args hands to the function): .value is a model datetime."""
    __symbolic__ = True
    __slots__ = ('mdt',)

    def __new__(cls, mdt):
        inst = object.__new__(cls)
        inst.mdt = mdt
        return inst

    @property
    def value(self):
        return self.mdt

    def to_number(self, it, br):
        return it.call_function(XU.datetime_to_number, [self.mdt], {}, br)      # the repo's own conversion, interpreted

    def sym_sub(self, other, it, br):
        if isinstance(other, MXlDateTime):
            # whatever __sub__ the repo's DateTime class has (ExcelType.__sub__: Number.cast(a).value - Number.cast(b).value), interpreted
            r = it.call_function(T.DateTime.__sub__, [self, other], {}, br)
            return r.term if isinstance(r, MNumberV) else r
        raise Unsupported('DateTime - ' + type(other).__name__)

    def sym_cmp(self, opname, other, it, br):
        # ExcelType comparison: dates order as their serial numbers
        a = self.to_number(it, br)
        if isinstance(other, MXlDateTime):
            b = other.to_number(it, br)
        elif isinstance(other, datetime.datetime):
            b = it.call_function(XU.datetime_to_number, [lift(other)], {}, br)
        else:
            raise Unsupported('DateTime compared with ' + type(other).__name__)
        a, b = to_real(a), to_real(b)
        return {'Lt': a < b, 'LtE': a <= b, 'Gt': a > b, 'GtE': a >= b, 'Eq': a == b, 'NotEq': a != b}[opname]


class MNumberV(T.Number):
    """Number(term): a Number object built by the interpreted code around a symbolic value."""
    __symbolic__ = True
    __slots__ = ('term',)

    def __new__(cls, term):
        inst = object.__new__(cls)
        inst.term = term
        return inst

    @property
    def value(self):
        return self.term


def m_number_ctor(it, br, value):
    if is_sym(value):
        return MNumberV(value)
    return T.Number(value)


DATE_MODELS = dict(MD.DIGIT_MODELS)
DATE_MODELS[T.Number] = m_number_ctor
DATE_MODELS.update({datetime.timedelta: m_timedelta, int: m_int, list: m_list, len: m_len})
try:
    from dateutil.relativedelta import relativedelta as _rd
    from dateutil import rrule as _rr
    DATE_MODELS[_rd] = m_relativedelta
    DATE_MODELS[_rr.rrule] = m_rrule
except Exception:      # pragma: no cover
    pass
