"""KT obligations: one z3 query per obligation over the leaves of a symbolically interpreted repo function."""
import time
import traceback

import z3

from kt import kt as K
from vf.ob import Ob


def model_assignment(model, vars_):
    out = {}
    for name, v in vars_.items():
        mv = model.eval(v, model_completion=True)
        if z3.is_int_value(mv):
            out[name] = mv.as_long()
        elif z3.is_rational_value(mv):
            out[name] = (mv.numerator_as_long(), mv.denominator_as_long())
        elif z3.is_true(mv) or z3.is_false(mv):
            out[name] = z3.is_true(mv)
        else:
            out[name] = str(mv)
    return out


def eval_leaves(leaves, vars_, assign, norm, extra=()):
    """Push a concrete assignment through the encoding: the leaf whose path condition holds and its normalised outcome."""
    s = z3.Solver()
    for name, val in assign.items():
        v = vars_[name]
        if isinstance(val, tuple):
            s.add(v == z3.RealVal(val[0]) / z3.RealVal(val[1]))
        else:
            s.add(v == val)
    for c in extra:
        s.add(c)
    hits = []
    for l in leaves:
        s.push()
        s.add(l.pc)
        r = K.check(s)
        if r == z3.sat:
            hits.append(norm(l, s.model()))
        s.pop()
    return hits


def kt_ob(name, spec, family='', bounds='', timeout=120, cost=5, known=None):
    """spec() -> dict with keys:
         encode() -> (leaves, interp, vars)                 symbolic interpretation of the real source
         bad(leaf) -> z3 Bool                               property violated on that leaf
         replay(assign) -> (ok, detail)                     real function vs oracle, natively, on one concrete input
         norm(leaf, model) / native(assign)                 normalised outcomes for the translator validation
         samples -> [assign]                                concrete inputs (repo test inputs, boundaries)
         region(assign) -> bool (optional)                  known-finding region
    """
    def run(known=(), replay=None):
        t0 = time.perf_counter()
        q0, s0 = K.STATS['queries'], K.STATS['time']
        K.SECOND.clear(); K.SECOND.update(agree=0, disagree=0, inconclusive=0)
        res = {'name': name, 'kind': 'kt', 'family': family or name.split('[')[0], 'bounds': bounds}
        try:
            sp = spec()
            if replay is not None:
                assign = replay[0] if isinstance(replay, tuple) else replay
                ok, detail = sp['replay'](assign)
                return {'ok': ok, 'detail': detail, 'case': sp.get('show', str)(assign)}
            # concrete witnesses first (as for XH obligations): boundary inputs replayed natively against the reference;
            # a failing one is a reproduced violation whatever the translator can or cannot encode
            for assign in sp.get('samples', []):
                if sp.get('region_py') and sp['region_py'](assign):
                    continue
                ok, detail = sp['replay'](assign)
                if not ok:
                    res.update(status='VIOLATED', reproduced=True, detail='native witness fails: ' + detail, replay=detail, cex=repr((assign,)), case=sp.get('show', str)(assign),
                               paths=0)
                    res['solver_queries'] = K.STATS['queries'] - q0
                    res['solver_time_s'] = round(K.STATS['time'] - s0, 4)
                    return res
            leaves, interp, vars_ = sp['encode']()
            res['paths'] = len(leaves)
            res['functions'] = sorted(interp.inlined)
            res['stubs'] = sp.get('models', [])
            # translator validation: concrete inputs through the encoding and through the real function
            tv = 0
            for assign in sp.get('samples', []):
                hits = eval_leaves(leaves, vars_, assign, sp['norm'], sp['axioms'](assign) if 'axioms' in sp else ())
                nat = sp['native'](assign)
                if len(hits) != 1 or hits[0] != nat:
                    res.update(status='HARNESS_ERROR', detail=f'translator validation mismatch on {assign}: encoding {hits} vs real code {nat}')
                    return res
                tv += 1
            res['translator_validation_cases'] = tv
            carve = None
            kf_active = [k for k in (known or []) if k in (sp.get('known') or {})]
            bad = sp['bad']
            if kf_active:
                regs = [sp['known'][k] for k in kf_active]
                bad0 = bad
                bad = lambda l: z3.And(bad0(l), *[z3.Not(r) for r in regs])      # noqa: E731
                res['carved'] = kf_active
            import os
            verdict, model, solver = K.decide(leaves, bad, timeout_ms=int(timeout * 1000 * float(os.environ.get('VERIF_TIMEOUT_FACTOR', '3'))))
            res['smt2_chars'] = len(solver.to_smt2())
            if verdict == 'unsat':
                res['status'] = 'CONFIRMED'
                res['detail'] = 'unsat: no input within the bounds violates the property on any path'
            elif verdict == 'sat':
                assign = model_assignment(model, vars_)
                res['cex'] = repr((assign,))
                res['case'] = sp.get('show', str)(assign)
                ok, detail = sp['replay'](assign)
                res['replay'] = detail
                # a solver model is also a translator-validation case
                hits = eval_leaves(leaves, vars_, assign, sp['norm'], sp['axioms'](assign) if 'axioms' in sp else ())
                nat = sp['native'](assign)
                if len(hits) != 1 or hits[0] != nat:
                    res.update(status='HARNESS_ERROR', detail=f'translator disagrees with the real code on the solver model {assign}: {hits} vs {nat}')
                elif not ok:
                    res.update(status='VIOLATED', reproduced=True, detail=detail)
                else:
                    res.update(status='SPURIOUS', reproduced=False, detail='solver model does not reproduce natively: ' + detail)
            else:
                res.update(status='INCONCLUSIVE', detail=f'solver answered {verdict}')
        except K.Unsupported as e:
            res.update(status='INCONCLUSIVE', detail=f'kernel translator: unsupported construct: {e}')
        except Exception as e:
            res.update(status='HARNESS_ERROR', detail=f'{type(e).__name__}: {e}\n' + traceback.format_exc()[-1200:])
        res['solver_queries'] = K.STATS['queries'] - q0
        res['second_solver'] = dict(K.SECOND)
        res['solver_time_s'] = round(K.STATS['time'] - s0, 4)
        res['wall_s'] = round(time.perf_counter() - t0, 3)
        return res
    return Ob(name, kind='kt', run=run, family=family or name.split('[')[0], bounds=bounds, timeout=timeout, cost=cost)
