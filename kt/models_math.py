"""decimal / math models for the rounding kernels (trusted base of the C16 KT obligations)."""
import decimal
import math

import z3

from kt.kt import Raised, Unsupported, is_sym, to_real
from kt import models as MD

CURRENT = {'rounding': decimal.ROUND_HALF_EVEN}


def zfloor(x):
    x = to_real(x)
    return z3.ToInt(x)                      # z3 to_int is floor


def zceil(x):
    x = to_real(x)
    return -z3.ToInt(-x)


def zabs(x):
    return z3.If(x < 0, -x, x)


class MRealStr:
    """str() of a number, only ever handed to Decimal(): the exact decimal value (shortest-repr assumption for floats)."""
    __symbolic__ = True

    def __init__(self, real):
        self.real = real


class MDecimal:
    __symbolic__ = True

    def __init__(self, real):
        self.real = to_real(real)

    def quantize(self, exp, rounding=None):
        """Round to the exponent of `exp` (a concrete Decimal such as Decimal('0.0')) under the given rounding mode."""
        if not isinstance(exp, decimal.Decimal):
            raise Unsupported('quantize with a symbolic exponent')
        n = -exp.as_tuple().exponent
        return MDecimal(round_real(self.real, n, rounding or CURRENT['rounding']))


class MCtx:
    __symbolic__ = True

    def __enter__(self):
        return self

    def __exit__(self, *a):
        return False

    @property
    def rounding(self):
        return CURRENT['rounding']

    @rounding.setter
    def rounding(self, v):
        CURRENT['rounding'] = v


def m_str(it, br, v=''):
    if is_sym(v) and v.sort() == z3.RealSort():
        return MRealStr(v)
    return MD.m_str(it, br, v)


def m_decimal(it, br, v=0):
    if isinstance(v, MRealStr):
        return MDecimal(v.real)
    if is_sym(v):
        return MDecimal(v)
    if isinstance(v, (str, int, float)):
        return decimal.Decimal(v)
    raise Unsupported('Decimal of ' + type(v).__name__)


def m_localcontext(it, br):
    return MCtx()


def round_real(q, n, mode):
    """Decimal rounding of the real q to n digits (n a concrete int) under the decimal rounding mode."""
    s = z3.RealVal(10) ** n if n >= 0 else 1 / (z3.RealVal(10) ** (-n))
    a = zabs(q) * s
    if mode == decimal.ROUND_HALF_UP:
        r = z3.ToReal(z3.ToInt(a + z3.RealVal('1/2')))
    elif mode == decimal.ROUND_UP:
        r = z3.ToReal(-z3.ToInt(-a))
    elif mode == decimal.ROUND_DOWN:
        r = z3.ToReal(z3.ToInt(a))
    else:
        raise Unsupported('rounding mode ' + str(mode))
    return z3.If(q < 0, -r, r) / s


def m_round(it, br, number, ndigits=None):
    if isinstance(number, MDecimal):
        mode = CURRENT['rounding']
        if ndigits is None:
            ndigits = 0
        if is_sym(ndigits):
            for k in range(-12, 13):
                if br.decide(ndigits == k):
                    return MDecimal(round_real(number.real, k, mode))
            raise Unsupported('digit count outside -12..12')
        return MDecimal(round_real(number.real, int(ndigits), mode))
    if is_sym(number):
        raise Unsupported('round() of a float (binary rounding is not modelled)')
    return round(number, ndigits)


def m_float(it, br, v=0.0):
    if isinstance(v, MDecimal):
        return v.real
    if is_sym(v):
        return to_real(v)
    return float(v)


def m_trunc(it, br, v):
    if is_sym(v):
        v = to_real(v)
        fl = z3.ToInt(v)
        return z3.If(v >= 0, fl, z3.If(z3.ToReal(fl) == v, fl, fl + 1))
    return math.trunc(v)


def m_ceil(it, br, v):
    return zceil(v) if is_sym(v) else math.ceil(v)


def m_floor(it, br, v):
    return zfloor(v) if is_sym(v) else math.floor(v)


def m_abs(it, br, v):
    return zabs(v) if is_sym(v) else abs(v)


MATH_MODELS = dict(MD.DIGIT_MODELS)
MATH_MODELS.update({str: m_str, decimal.Decimal: m_decimal, decimal.localcontext: m_localcontext, round: m_round, float: m_float,
                    math.trunc: m_trunc, math.ceil: m_ceil, math.floor: m_floor, abs: m_abs})
