"""decimal / math models for the rounding kernels (trusted base of the C16 KT obligations)."""
import decimal
import math

import z3

from kt.kt import Raised, Unsupported, is_sym, to_real
from kt import models as MD

CURRENT = {'rounding': decimal.ROUND_HALF_EVEN, 'prec': 28}
ADJ_MAX = 60          # Decimal.adjusted() is forked exactly for exponents 16..ADJ_MAX; obligations bound |q| < 10^(ADJ_MAX+1)


def zfloor(x):
    x = to_real(x)
    return z3.ToInt(x)                      # z3 to_int is floor


def zceil(x):
    x = to_real(x)
    return -z3.ToInt(-x)


def zabs(x):
    return z3.If(x < 0, -x, x)


class MRealStr:
    """str() of a number, only ever handed to Decimal(): the exact decimal value (shortest-repr assumption for floats)."""
    __symbolic__ = True

    def __init__(self, real):
        self.real = real


class MDecimal:
    __symbolic__ = True

    def __init__(self, real):
        self.real = to_real(real)

    def quantize(self, exp, rounding=None):
        """Round to the exponent of `exp` (a concrete Decimal such as Decimal('0.0')) under the given rounding mode."""
        if not isinstance(exp, decimal.Decimal):
            raise Unsupported('quantize with a symbolic exponent')
        n = -exp.as_tuple().exponent
        return MDecimal(round_real(self.real, n, rounding or CURRENT['rounding']))

    # arithmetic between decimals (exact; the 28-digit context rounding of a non-terminating quotient is outside the model)
    @staticmethod
    def _real(o):
        if isinstance(o, MDecimal):
            return o.real
        if isinstance(o, decimal.Decimal):
            return z3.RealVal(str(o))
        if isinstance(o, int) and not isinstance(o, bool):
            return z3.RealVal(o)
        raise Unsupported('Decimal arithmetic with ' + type(o).__name__)

    def sym_div(self, other, it, br):
        d = self._real(other)
        if br.decide(d == 0):
            raise Raised('DivisionByZero')
        return MDecimal(self.real / d)

    def sym_rdiv(self, other, it, br):
        if br.decide(self.real == 0):
            raise Raised('DivisionByZero')
        return MDecimal(self._real(other) / self.real)

    def sym_mul(self, other, it, br):
        return MDecimal(self.real * self._real(other))

    def sym_rmul(self, other, it, br):
        return MDecimal(self._real(other) * self.real)

    def to_integral_value(self, rounding=None):
        mode = rounding or CURRENT['rounding']
        fl = z3.ToReal(z3.ToInt(self.real))
        if mode == decimal.ROUND_FLOOR:
            return MDecimal(fl)
        if mode == decimal.ROUND_CEILING:
            return MDecimal(-z3.ToReal(z3.ToInt(-self.real)))
        return MDecimal(round_real(self.real, 0, mode))

    def adjusted(self, it, br):
        """Exponent of the most significant digit.  Exact (forked) from 16 up to ADJ_MAX; below 16 a fresh integer e <= 15 (only
        ever compared with / added to small constants by the code under analysis: an over-approximation)."""
        a = zabs(self.real)
        for e in range(ADJ_MAX, 15, -1):
            if br.decide(a >= z3.RealVal(10) ** e):
                if e == ADJ_MAX and br.decide(a >= z3.RealVal(10) ** (e + 1)):
                    raise Unsupported('magnitude beyond 10^%d' % (ADJ_MAX + 1))
                return e
        e = MD.fresh('adj')
        br.assume(e <= 15)
        return e
    adjusted.__needs_br__ = True


class MCtx:
    __symbolic__ = True

    def __enter__(self):
        return self

    def __exit__(self, *a):
        return False

    @property
    def rounding(self):
        return CURRENT['rounding']

    @rounding.setter
    def rounding(self, v):
        CURRENT['rounding'] = v

    @property
    def prec(self):
        return CURRENT['prec']

    @prec.setter
    def prec(self, v):
        CURRENT['prec'] = v


def m_str(it, br, v=''):
    if is_sym(v) and v.sort() == z3.RealSort():
        return MRealStr(v)
    return MD.m_str(it, br, v)


def m_decimal(it, br, v=0):
    if isinstance(v, MRealStr):
        return MDecimal(v.real)
    if is_sym(v):
        return MDecimal(v)
    if isinstance(v, (str, int, float)):
        return decimal.Decimal(v)
    raise Unsupported('Decimal of ' + type(v).__name__)


def m_localcontext(it, br):
    CURRENT['prec'] = 28
    return MCtx()


def m_max(it, br, *args):
    if len(args) == 1:
        args = tuple(args[0])
    if not any(is_sym(a) for a in args):
        return max(*args)
    out = args[0]
    for b in args[1:]:
        if is_sym(out) and out.sort() == z3.RealSort() or is_sym(b) and b.sort() == z3.RealSort():
            out, b = to_real(out), to_real(b)
        out = z3.If(out >= b, out, b)
    return out


def _context_precision(br):
    """The context precision as a concrete int (a symbolic one, e.g. max(28, adjusted + digits + 2), is forked over 28..80)."""
    p = CURRENT['prec']
    if not is_sym(p):
        return int(p)
    for k in range(28, 81):
        if br.decide(p == k):
            return k
    raise Unsupported('context precision outside 28..80')


def _quantized(br, q, k, mode):
    """round(Decimal, k) / quantize: InvalidOperation when the coefficient of the result needs more digits than the context precision."""
    res = round_real(q, k, mode)
    prec = _context_precision(br)
    sc = z3.RealVal(10) ** k if k >= 0 else 1 / (z3.RealVal(10) ** (-k))
    if br.decide(zabs(res) * sc >= z3.RealVal(10) ** prec):
        raise Raised('InvalidOperation')
    return MDecimal(res)


def round_real(q, n, mode):
    """Decimal rounding of the real q to n digits (n a concrete int) under the decimal rounding mode."""
    s = z3.RealVal(10) ** n if n >= 0 else 1 / (z3.RealVal(10) ** (-n))
    a = zabs(q) * s
    if mode == decimal.ROUND_HALF_UP:
        r = z3.ToReal(z3.ToInt(a + z3.RealVal('1/2')))
    elif mode == decimal.ROUND_UP:
        r = z3.ToReal(-z3.ToInt(-a))
    elif mode == decimal.ROUND_DOWN:
        r = z3.ToReal(z3.ToInt(a))
    else:
        raise Unsupported('rounding mode ' + str(mode))
    return z3.If(q < 0, -r, r) / s


def m_round(it, br, number, ndigits=None):
    if isinstance(number, MDecimal):
        mode = CURRENT['rounding']
        if ndigits is None:
            ndigits = 0
        if is_sym(ndigits):
            for k in range(-12, 13):
                if br.decide(ndigits == k):
                    return _quantized(br, number.real, k, mode)
            raise Unsupported('digit count outside -12..12')
        return _quantized(br, number.real, int(ndigits), mode)
    if is_sym(number):
        raise Unsupported('round() of a float (binary rounding is not modelled)')
    return round(number, ndigits)


def m_float(it, br, v=0.0):
    if isinstance(v, MDecimal):
        return v.real
    if is_sym(v):
        return to_real(v)
    return float(v)


def m_trunc(it, br, v):
    if is_sym(v):
        v = to_real(v)
        fl = z3.ToInt(v)
        return z3.If(v >= 0, fl, z3.If(z3.ToReal(fl) == v, fl, fl + 1))
    return math.trunc(v)


def m_ceil(it, br, v):
    return zceil(v) if is_sym(v) else math.ceil(v)


def m_floor(it, br, v):
    return zfloor(v) if is_sym(v) else math.floor(v)


def m_abs(it, br, v):
    return zabs(v) if is_sym(v) else abs(v)


MATH_MODELS = dict(MD.DIGIT_MODELS)
MATH_MODELS.update({str: m_str, decimal.Decimal: m_decimal, decimal.localcontext: m_localcontext, round: m_round, float: m_float,
                    math.trunc: m_trunc, math.ceil: m_ceil, math.floor: m_floor, abs: m_abs, max: m_max})
