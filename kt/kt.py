"""KT — kernel translator: the real source of a repo function, interpreted symbolically into z3 terms.

`inspect.getsource` -> `ast` -> a small path-forking interpreter over the Python subset the kernels use.  Python ints are
z3 Ints (mathematical integers), decimals/quotients are z3 Reals; library calls go to models (kt/models.py); repo
functions are inlined by interpreting their own AST.  Path exploration is DFS over branch decisions with a feasibility
query per fork; the result is a list of leaves (path condition, outcome).  The encoding is regenerated from /repo's
current source on every run.
"""
import ast
import builtins
import inspect
import itertools
import textwrap
import time

import z3


class Raised(Exception):
    def __init__(self, exc_name, exc_obj=None):
        super().__init__(exc_name)
        self.exc_name = exc_name
        self.exc_obj = exc_obj


class Leaf:
    def __init__(self, pc, kind, value):
        self.pc, self.kind, self.value = pc, kind, value   # kind: 'return' | 'raise'


class PathAbort(Exception):
    pass


class Unsupported(Exception):
    pass


STATS = {'queries': 0, 'time': 0.0, 'unknown': 0}


def check(solver, *a):
    t = time.perf_counter()
    r = solver.check(*a)
    STATS['time'] += time.perf_counter() - t
    STATS['queries'] += 1
    if r == z3.unknown:
        STATS['unknown'] += 1
    return r


class Engine:
    """DFS over branch decisions by re-execution with a decision prefix."""

    def __init__(self, assumptions=(), timeout_ms=60000):
        self.assumptions = list(assumptions)
        self.solver = z3.Solver()
        self.solver.set('timeout', timeout_ms)

    def feasible(self, conds):
        self.solver.push()
        for c in conds:
            self.solver.add(c)
        r = check(self.solver)
        self.solver.pop()
        if r == z3.unknown:
            raise Unsupported('solver answered unknown on a feasibility query')
        return r == z3.sat

    def explore(self, run, max_paths=5000):
        leaves = []
        stack = [[]]
        while stack:
            if len(leaves) > max_paths:
                raise Unsupported('too many paths')
            prefix = stack.pop()
            br = Brancher(self, prefix, stack)
            try:
                kind, val = run(br)
            except PathAbort:
                continue
            leaves.append(Leaf(z3.And(*br.pc) if br.pc else z3.BoolVal(True), kind, val))
        return leaves


class Brancher:
    def __init__(self, eng, prefix, stack):
        self.eng, self.prefix, self.stack = eng, prefix, stack
        self.i = 0
        self.pc = list(eng.assumptions)
        self.trace = []
        self.fresh = itertools.count()

    def assume(self, cond):
        """Definitional constraint (model axiom) added to the path condition."""
        self.pc.append(cond)

    def decide(self, cond):
        if isinstance(cond, bool):
            return cond
        cond = z3.simplify(cond)
        if z3.is_true(cond):
            return True
        if z3.is_false(cond):
            return False
        if self.i < len(self.prefix):
            d = self.prefix[self.i]
        else:
            t_ok = self.eng.feasible(self.pc + [cond])
            f_ok = self.eng.feasible(self.pc + [z3.Not(cond)])
            if t_ok and f_ok:
                self.stack.append(self.trace + [False])
                d = True
            elif t_ok:
                d = True
            elif f_ok:
                d = False
            else:
                raise PathAbort()
        self.i += 1
        self.trace.append(d)
        self.pc.append(cond if d else z3.Not(cond))
        return d


def is_sym(v):
    return isinstance(v, z3.ExprRef)


def is_model(v):
    return getattr(v, '__symbolic__', False) is True


def to_real(v):
    if is_sym(v):
        return z3.ToReal(v) if v.sort() == z3.IntSort() else v
    return z3.RealVal(v)


def is_int_term(v):
    return (is_sym(v) and v.sort() == z3.IntSort()) or (isinstance(v, int) and not isinstance(v, bool))


def floor_div(a, b):
    """Python floor division on ints (z3 div is Euclidean: differs for negative divisors)."""
    if not is_sym(a) and not is_sym(b):
        return a // b
    a = z3.IntVal(a) if not is_sym(a) else a
    if not is_sym(b):
        if b > 0:
            return a / b
        return (-a) / (-b) if b < 0 else None
    return z3.If(b > 0, a / b, (-a) / (-b))


def py_mod(a, b):
    if not is_sym(a) and not is_sym(b):
        return a % b
    a = z3.IntVal(a) if not is_sym(a) else a
    if not is_sym(b):
        if b > 0:
            return a % b
        return -((-a) % (-b))
    return z3.If(b > 0, a % b, -((-a) % (-b)))


class _Return(Exception):
    def __init__(self, value):
        self.value = value


class _Break(Exception):
    pass


class _Continue(Exception):
    pass


class Interp:
    def __init__(self, models, max_loop=64, inline_prefix='xlcalculator'):
        self.models = models          # callable -> model(interp, br, *args, **kw)
        self.max_loop = max_loop
        self.inline_prefix = inline_prefix
        self.inlined = set()          # names of repo functions whose source was interpreted
        self._ast_cache = {}

    # ------------------------------------------------------------------ entry
    def fn_ast(self, fn):
        fn = inspect.unwrap(fn)
        if fn not in self._ast_cache:
            src = textwrap.dedent(inspect.getsource(fn))
            self._ast_cache[fn] = ast.parse(src).body[0]
        return fn, self._ast_cache[fn]

    def call_lambda(self, fn, args, kwargs, br):
        """A lambda of an inlinable module: the ast.Lambda node on its first line, its body evaluated with the arguments bound."""
        if fn not in self._ast_cache:
            lines, start = inspect.getsourcelines(fn)
            # the lambda may sit in the middle of a statement: parse the enclosing top-level statement from the module source
            mod = ast.parse(inspect.getsource(inspect.getmodule(fn)))
            found = [n for n in ast.walk(mod) if isinstance(n, ast.Lambda) and n.lineno == fn.__code__.co_firstlineno]
            if len(found) != 1:
                raise Unsupported(f'cannot locate the lambda at line {fn.__code__.co_firstlineno} unambiguously')
            self._ast_cache[fn] = found[0]
        node = self._ast_cache[fn]
        self.inlined.add(f'{fn.__module__}.<lambda:{fn.__code__.co_firstlineno}>')
        names = [a.arg for a in node.args.args]
        if kwargs or len(names) != len(args) or node.args.vararg or node.args.kwarg or node.args.defaults:
            raise Unsupported('lambda with defaults / keywords')
        local = dict(zip(names, args))
        # free variables of the lambda (closure cells) shadow the module globals
        env = dict(fn.__globals__)
        if fn.__closure__:
            env.update({n: c.cell_contents for n, c in zip(fn.__code__.co_freevars, fn.__closure__)})
        return self.ev(node.body, env, local, br)

    def call_function(self, fn, args, kwargs, br):
        if getattr(fn, '__name__', '') == '<lambda>':
            return self.call_lambda(fn, args, kwargs, br)
        fn, fdef = self.fn_ast(fn)
        self.inlined.add(f'{fn.__module__}.{fn.__qualname__}')
        env = fn.__globals__
        sig = inspect.signature(fn)
        ba = sig.bind(*args, **kwargs)
        ba.apply_defaults()
        local = dict(ba.arguments)
        try:
            self.exec_block(fdef.body, env, local, br)
        except _Return as r:
            return r.value
        return None

    def run(self, fn, args, br, kwargs=None):
        try:
            v = self.call_function(fn, args, kwargs or {}, br)
            return ('return', v)
        except Raised as r:
            return ('raise', r.exc_name)

    # ------------------------------------------------------------------ statements
    def exec_block(self, stmts, env, local, br):
        for s in stmts:
            self.exec_stmt(s, env, local, br)

    def exec_stmt(self, s, env, local, br):
        if isinstance(s, ast.Expr):
            if isinstance(s.value, ast.Constant):
                return
            self.ev(s.value, env, local, br)
            return
        if isinstance(s, ast.Assign):
            v = self.ev(s.value, env, local, br)
            for t in s.targets:
                self.assign(t, v, env, local, br)
            return
        if isinstance(s, ast.AugAssign):
            cur = self.ev(s.target, env, local, br)
            v = self.binop(s.op, cur, self.ev(s.value, env, local, br), br)
            self.assign(s.target, v, env, local, br)
            return
        if isinstance(s, ast.If):
            c = self.truth(self.ev(s.test, env, local, br), br)
            self.exec_block(s.body if c else s.orelse, env, local, br)
            return
        if isinstance(s, ast.Return):
            raise _Return(self.ev(s.value, env, local, br) if s.value else None)
        if isinstance(s, ast.Raise):
            exc = s.exc
            name = exc.func if isinstance(exc, ast.Call) else exc
            nm = name.attr if isinstance(name, ast.Attribute) else name.id
            raise Raised(nm)
        if isinstance(s, ast.While):
            n = 0
            try:
                while self.truth(self.ev(s.test, env, local, br), br):
                    n += 1
                    if n > self.max_loop:
                        raise Raised('UNWIND_EXCEEDED')      # unwinding assertion: reported, never silently truncated
                    try:
                        self.exec_block(s.body, env, local, br)
                    except _Continue:
                        continue
            except _Break:
                pass
            return
        if isinstance(s, ast.For):
            it = self.ev(s.iter, env, local, br)
            n = 0
            try:
                for item in it:
                    n += 1
                    if n > self.max_loop:
                        raise Raised('UNWIND_EXCEEDED')
                    self.assign(s.target, item, env, local, br)
                    try:
                        self.exec_block(s.body, env, local, br)
                    except _Continue:
                        continue
            except _Break:
                pass
            return
        if isinstance(s, ast.Break):
            raise _Break()
        if isinstance(s, ast.Continue):
            raise _Continue()
        if isinstance(s, ast.Pass):
            return
        if isinstance(s, ast.Try):
            try:
                self.exec_block(s.body, env, local, br)
            except Raised as r:
                for h in s.handlers:
                    names = []
                    if h.type is None:
                        names = None
                    elif isinstance(h.type, ast.Tuple):
                        names = [self._exc_name(e) for e in h.type.elts]
                    else:
                        names = [self._exc_name(h.type)]
                    if names is None or r.exc_name in names or 'Exception' in names:
                        self.exec_block(h.body, env, local, br)
                        return
                raise
            return
        if isinstance(s, ast.With):
            # context managers are models: their __enter__/__exit__ effects are handled by the model objects
            for item in s.items:
                cm = self.ev(item.context_expr, env, local, br)
                v = cm.__enter__() if hasattr(cm, '__enter__') else cm
                if item.optional_vars is not None:
                    self.assign(item.optional_vars, v, env, local, br)
            try:
                self.exec_block(s.body, env, local, br)
            finally:
                for item in s.items:
                    pass
            return
        if isinstance(s, ast.Assert):
            return
        raise Unsupported('statement ' + ast.dump(s)[:200])

    @staticmethod
    def _exc_name(e):
        return e.attr if isinstance(e, ast.Attribute) else e.id

    def assign(self, t, v, env, local, br):
        if isinstance(t, ast.Name):
            local[t.id] = v
        elif isinstance(t, (ast.Tuple, ast.List)):
            for tt, vv in zip(t.elts, v):
                self.assign(tt, vv, env, local, br)
        elif isinstance(t, ast.Attribute):
            setattr(self.ev(t.value, env, local, br), t.attr, v)
        else:
            raise Unsupported('assignment target ' + ast.dump(t))

    # ------------------------------------------------------------------ expressions
    def truth(self, v, br):
        if is_sym(v):
            if z3.is_bool(v):
                return br.decide(v)
            return br.decide(v != 0)
        if hasattr(v, '__sym_truth__'):
            return self.truth(v.__sym_truth__(), br)
        return bool(v)

    def ev(self, e, env, local, br):
        if isinstance(e, ast.Constant):
            return e.value
        if isinstance(e, ast.Name):
            if e.id in local:
                return local[e.id]
            if e.id in env:
                return env[e.id]
            return getattr(builtins, e.id)
        if isinstance(e, ast.Attribute):
            base = self.ev(e.value, env, local, br)
            return getattr(base, e.attr)
        if isinstance(e, ast.BinOp):
            return self.binop(e.op, self.ev(e.left, env, local, br), self.ev(e.right, env, local, br), br)
        if isinstance(e, ast.UnaryOp):
            v = self.ev(e.operand, env, local, br)
            if isinstance(e.op, ast.Not):
                return not self.truth(v, br)
            if isinstance(e.op, ast.USub):
                return -v
            if isinstance(e.op, ast.UAdd):
                return v
            if isinstance(e.op, ast.Invert):
                return -v - 1
            raise Unsupported('unary op')
        if isinstance(e, ast.BoolOp):
            if isinstance(e.op, ast.And):
                v = True
                for x in e.values:
                    v = self.ev(x, env, local, br)
                    if not self.truth(v, br):
                        return v
                return v
            v = False
            for x in e.values:
                v = self.ev(x, env, local, br)
                if self.truth(v, br):
                    return v
            return v
        if isinstance(e, ast.Compare):
            left = self.ev(e.left, env, local, br)
            for op, r in zip(e.ops, e.comparators):
                right = self.ev(r, env, local, br)
                c = self.cmp(op, left, right, br)
                if not self.truth(c, br):
                    return False
                left = right
            return True
        if isinstance(e, ast.IfExp):
            return self.ev(e.body if self.truth(self.ev(e.test, env, local, br), br) else e.orelse, env, local, br)
        if isinstance(e, ast.Call):
            f = self.ev(e.func, env, local, br)
            args = []
            for a in e.args:
                if isinstance(a, ast.Starred):
                    args.extend(self.ev(a.value, env, local, br))
                else:
                    args.append(self.ev(a, env, local, br))
            kw = {k.arg: self.ev(k.value, env, local, br) for k in e.keywords}
            return self.call(f, args, kw, br)
        if isinstance(e, ast.Subscript):
            base = self.ev(e.value, env, local, br)
            if isinstance(e.slice, ast.Slice):
                lo = self.ev(e.slice.lower, env, local, br) if e.slice.lower else None
                hi = self.ev(e.slice.upper, env, local, br) if e.slice.upper else None
                return base[lo:hi]
            idx = self.ev(e.slice, env, local, br)
            if is_sym(idx) and isinstance(base, (dict, tuple, list)):
                # constant table with a symbolic index: fork over the keys
                keys = list(base.keys()) if isinstance(base, dict) else list(range(len(base)))
                for k in keys:
                    if br.decide(idx == k):
                        return base[k]
                raise Raised('KeyError')
            return base[idx]
        if isinstance(e, ast.Tuple):
            return tuple(self.ev(x, env, local, br) for x in e.elts)
        if isinstance(e, ast.List):
            return [self.ev(x, env, local, br) for x in e.elts]
        if isinstance(e, ast.JoinedStr):
            # concrete parts are formatted for real (getattr(value, f'__{cls.__name__}__')); anything symbolic: a placeholder (messages)
            parts = []
            for p_ in e.values:
                if isinstance(p_, ast.Constant):
                    parts.append(str(p_.value))
                    continue
                try:
                    v = self.ev(p_.value, env, local, br)
                except Unsupported:
                    return '<fstring>'
                if is_sym(v) or is_model(v) or p_.format_spec is not None or p_.conversion != -1:
                    return '<fstring>'
                parts.append(format(v))
            return ''.join(parts)
        if isinstance(e, ast.ListComp) or isinstance(e, ast.GeneratorExp):
            raise Unsupported('comprehension')
        raise Unsupported('expression ' + ast.dump(e)[:200])

    def call(self, f, args, kw, br):
        try:
            m = self.models.get(f)
        except TypeError:
            m = None
        if m is not None:
            return m(self, br, *args, **kw)
        if f is getattr and len(args) >= 2 and isinstance(args[1], str) and not is_sym(args[0]):
            return getattr(*args)
        if inspect.ismethod(f) and getattr(f.__func__, '__module__', '').startswith(self.inline_prefix):
            # a method of the repo's own classes (also one inherited by a model stand-in, and classmethods): interpreted
            return self.call_function(f.__func__, [f.__self__] + list(args), kw, br)
        if is_model(getattr(f, '__self__', None)):
            if getattr(f, '__needs_br__', False):
                return f(self, br, *args, **kw)      # a model method that forks / assumes
            r = f(*args, **kw)
            return r
        if hasattr(f, '__kt_model__'):
            return f.__kt_model__(self, br, *args, **kw)
        symbolic = any(is_sym(a) or is_model(a) for a in itertools.chain(args, kw.values()))
        if inspect.isfunction(inspect.unwrap(f)) and getattr(inspect.unwrap(f), '__module__', '').startswith(self.inline_prefix):
            return self.call_function(f, args, kw, br)
        if symbolic:
            raise Unsupported(f'no model for {f} with symbolic arguments')
        try:
            return f(*args, **kw)
        except Exception as ex:
            raise Raised(type(ex).__name__)

    def binop(self, op, a, b, br):
        if is_model(a) or is_model(b):
            name = {ast.Add: 'add', ast.Sub: 'sub', ast.Mult: 'mul', ast.Div: 'div', ast.Mod: 'mod', ast.FloorDiv: 'floordiv'}[type(op)]
            if is_model(a):
                return getattr(a, 'sym_' + name)(b, self, br)
            return getattr(b, 'sym_r' + name)(a, self, br)
        if isinstance(op, ast.Add):
            if (is_sym(a) or is_sym(b)) and not (is_int_term(a) and is_int_term(b)):
                return to_real(a) + to_real(b)
            return a + b
        if isinstance(op, ast.Sub):
            if (is_sym(a) or is_sym(b)) and not (is_int_term(a) and is_int_term(b)):
                return to_real(a) - to_real(b)
            return a - b
        if isinstance(op, ast.Mult):
            if (is_sym(a) or is_sym(b)) and not (is_int_term(a) and is_int_term(b)):
                return to_real(a) * to_real(b)
            return a * b
        if isinstance(op, ast.Div):
            if is_sym(b):
                if br.decide(b == 0):
                    raise Raised('ZeroDivisionError')
            elif b == 0:
                raise Raised('ZeroDivisionError')
            if is_sym(a) or is_sym(b):
                return to_real(a) / to_real(b)
            return a / b
        if isinstance(op, ast.FloorDiv):
            if is_sym(b):
                if br.decide(b == 0):
                    raise Raised('ZeroDivisionError')
            elif b == 0:
                raise Raised('ZeroDivisionError')
            if is_int_term(a) and is_int_term(b):
                return floor_div(a, b)
            raise Unsupported('floor division on reals')
        if isinstance(op, ast.Mod):
            if is_sym(b):
                if br.decide(b == 0):
                    raise Raised('ZeroDivisionError')
            elif b == 0:
                raise Raised('ZeroDivisionError')
            if not is_sym(a) and not is_sym(b):
                return a % b
            if is_int_term(a) and is_int_term(b):
                return py_mod(a, b)
            if is_sym(a) and a.sort() == z3.RealSort() and b == 1:
                return a - z3.ToReal(z3.ToInt(a))          # x % 1 for reals: fractional part (floor semantics)
            if is_sym(a) and not is_sym(b) and b != 0:
                # real % concrete divisor: a - b * floor(a / b) (Python's definition, sign of the divisor)
                ar = to_real(a)
                return ar - z3.RealVal(b) * z3.ToReal(z3.ToInt(ar / z3.RealVal(b)))
            raise Unsupported('modulo on reals')
        if isinstance(op, ast.LShift):
            if is_sym(b):
                raise Unsupported('symbolic shift amount')
            return a * (2 ** b) if is_sym(a) else a << b
        if isinstance(op, ast.Pow):
            if is_sym(b):
                # symbolic integer exponent of a concrete base: fork over a small range (the obligation's bounds keep it inside)
                if not is_sym(a) and b.sort() == z3.IntSort():
                    for k in range(-12, 13):
                        if br.decide(b == k):
                            return (z3.RealVal(1) / z3.RealVal(a ** (-k))) if k < 0 else a ** k
                raise Unsupported('symbolic exponent')
            if is_sym(a) and isinstance(b, int) and b >= 0:
                r = z3.IntVal(1) if a.sort() == z3.IntSort() else z3.RealVal(1)
                for _ in range(b):
                    r = r * a
                return r
            return a ** b
        if isinstance(op, ast.BitAnd):
            # x & mask / x & ~mask where mask is one concrete bit 2^k, x a non-negative Int (asserted by the caller's model)
            if is_sym(a) and isinstance(b, int):
                if b > 0 and (b & (b - 1)) == 0:
                    return ((a / b) % 2) * b
                if b < 0 and ((~b) & ((~b) - 1)) == 0:
                    bit = ~b
                    return a - ((a / bit) % 2) * bit
            if not is_sym(a) and not is_sym(b):
                return a & b
            raise Unsupported('bit-and with a non single-bit mask')
        raise Unsupported('binary operator ' + type(op).__name__)

    def cmp(self, op, a, b, br):
        if is_model(a) and hasattr(a, 'sym_cmp'):
            return a.sym_cmp(type(op).__name__, b, self, br)
        if is_model(b) and hasattr(b, 'sym_rcmp'):
            return b.sym_rcmp(type(op).__name__, a, self, br)
        if isinstance(op, (ast.Is, ast.IsNot)):
            r = a is b
            return r if isinstance(op, ast.Is) else not r
        if isinstance(op, ast.In):
            if is_sym(a):
                return z3.Or(*[a == x for x in b]) if len(b) else False
            return a in b
        if isinstance(op, ast.NotIn):
            if is_sym(a):
                return z3.And(*[a != x for x in b]) if len(b) else True
            return a not in b
        if (is_sym(a) or is_sym(b)) and not (is_int_term(a) and is_int_term(b)) and not (is_sym(a) and z3.is_bool(a)):
            a, b = to_real(a), to_real(b)
        if isinstance(op, ast.Eq):
            return a == b
        if isinstance(op, ast.NotEq):
            return a != b
        if isinstance(op, ast.Lt):
            return a < b
        if isinstance(op, ast.LtE):
            return a <= b
        if isinstance(op, ast.Gt):
            return a > b
        if isinstance(op, ast.GtE):
            return a >= b
        raise Unsupported('comparison ' + type(op).__name__)


# ---------------------------------------------------------------------- obligations
def explore(fn, args, assumptions, models, kwargs=None, max_loop=64, inline_prefix='xlcalculator'):
    eng = Engine(assumptions)
    it = Interp(models, max_loop=max_loop, inline_prefix=inline_prefix)
    leaves = eng.explore(lambda br: it.run(fn, args, br, kwargs))
    return leaves, it


SECOND = {'agree': 0, 'disagree': 0, 'inconclusive': 0}


def _run_second(cmd, path, verdict, key):
    import subprocess
    try:
        out = subprocess.run(cmd + [path], capture_output=True, text=True, timeout=90)
    except subprocess.TimeoutExpired:
        SECOND['inconclusive'] += 1
        return True
    text = out.stdout + out.stderr
    first = out.stdout.strip().splitlines()[0] if out.stdout.strip() else ''
    if '(error' in text or 'rror' in out.stderr:
        SECOND['disagree'] += 1
        SECOND.setdefault('errors', []).append((key, text.strip()[:200]))
        return False
    if first in ('sat', 'unsat'):
        if first == verdict:
            SECOND['agree'] += 1
            SECOND[key] = SECOND.get(key, 0) + 1
            return True
        SECOND['disagree'] += 1
        return False
    SECOND['inconclusive'] += 1
    return True


def second_solver(solver, verdict):
    """Thorough tier: re-decide the same query, dumped as SMT-LIB2, with two other solvers: the system z3 4.8.12 binary (a
    different build of z3) and the cvc5 1.0 binary (a different solver family).  Returns False on a definite disagreement or an
    `(error` line from either; unknown/timeouts of a second solver are counted, not fatal."""
    import os
    import tempfile
    if os.environ.get('KT_SECOND_SOLVER') != '1':
        return True
    work = os.path.join(os.path.dirname(os.path.dirname(os.path.abspath(__file__))), '.work')
    os.makedirs(work, exist_ok=True)
    fd, path = tempfile.mkstemp(suffix='.smt2', dir=work)
    try:
        with os.fdopen(fd, 'w') as f:
            f.write('(set-logic ALL)\n' + solver.to_smt2())
        ok = True
        if os.path.exists('/usr/bin/z3'):
            ok = _run_second(['/usr/bin/z3', '-T:60'], path, verdict, 'z3-4.8.12') and ok
        import shutil
        cv = shutil.which('cvc5')
        if cv:
            ok = _run_second([cv, '--tlimit=60000'], path, verdict, 'cvc5') and ok
        return ok
    finally:
        try:
            os.remove(path)
        except OSError:
            pass


def decide(leaves, bad, timeout_ms=60000):
    """bad(leaf) -> z3 Bool that is true when the property is violated on that leaf.  One query per leaf (path condition and
    violated); all unsat = holds for every input within the bounds.  Returns ('unsat'|'sat'|'unknown', model, solver)."""
    last = None
    unknown = False
    per_leaf = timeout_ms          # wall-clock in z3: generous, the machine may be loaded
    for l in leaves:
        b = bad(l)
        if isinstance(b, bool):
            b = z3.BoolVal(b)
        s = z3.Solver()
        s.set('timeout', per_leaf)
        s.add(l.pc, b)
        last = s
        r = check(s)
        if r == z3.sat:
            return 'sat', s.model(), s
        if r != z3.unsat:
            unknown = True
        elif not second_solver(s, 'unsat'):
            unknown = True          # the two solvers disagree: inconclusive, never success
    if last is None:
        last = z3.Solver()
    return ('unknown' if unknown else 'unsat'), None, last
