"""Known findings: /verif/KNOWN_FINDINGS.json (committed; read-only at run time)."""
import json
import os

PATH = os.path.join(os.path.dirname(os.path.dirname(os.path.abspath(__file__))), 'KNOWN_FINDINGS.json')


def load():
    if not os.path.exists(PATH):
        return []
    with open(PATH) as f:
        return json.load(f)['findings']


def known_ids(prop=None):
    return {e['id'] for e in load() if e['status'] == 'known' and (prop is None or e['property'] == prop)}


def entries(prop, status=None):
    return [e for e in load() if e['property'] == prop and (status is None or e['status'] == status)]
