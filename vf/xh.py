"""XH engine: run one obligation through CrossHair (symbolic execution, z3 decides each path).

The harness function is handed to CrossHair through a programmatically built `Conditions`
object (no docstring parsing), so harnesses may be closures produced by factories.
"""
import inspect
import sys
import time
import traceback
from collections import Counter
from contextlib import nullcontext
from time import process_time

import z3

import crosshair.core_and_libs  # noqa: F401  (registers library support)
import crosshair.core as C
from crosshair.condition_parser import (ConditionExpr, Conditions, POSTCONDITION, PRECONDITION)
from crosshair.fnutil import FunctionInfo, resolve_signature
from crosshair.libimpl import builtinslib as B
from crosshair.options import DEFAULT_OPTIONS, AnalysisKind, AnalysisOptionSet
from crosshair.statespace import MessageType
from crosshair.tracers import NoTracing, ResumedTracing
from crosshair.util import CrossHairValue
from crosshair.core import realize, deep_realize

# ------------------------------------------------------------------ solver accounting
SOLVER = {'queries': 0, 'time': 0.0, 'unknown': 0}
_orig_check = z3.Solver.check


def _counting_check(self, *a):
    t = time.perf_counter()
    try:
        r = _orig_check(self, *a)
    finally:
        SOLVER['time'] += time.perf_counter() - t
        SOLVER['queries'] += 1
    if r == z3.unknown:
        SOLVER['unknown'] += 1
    return r


z3.Solver.check = _counting_check

# ------------------------------------------------------------------ patch P1
# float()/int() honour the Python-level __float__/__int__ of xlcalculator objects, so that
# float(Number(<symbolic>)) stays symbolic (CPython's C float() rejects a non-float return).
_MISSING = object()


def _is_xl(val):
    return getattr(type(val), '__module__', '').startswith('xlcalculator')


_NEVER_NUMERIC = ('!', ':', '$')


def _int_ok(o):
    return (9 <= o <= 13) or (28 <= o <= 32) or o == 43 or o == 45 or o == 95 or (48 <= o <= 57)


def _float_ok(o):
    return (_int_ok(o) or o == 46 or o == 69 or o == 101 or o == 73 or o == 105 or o == 78 or o == 110 or o == 70 or o == 102
            or o == 65 or o == 97 or o == 84 or o == 116 or o == 89 or o == 121)


def _impossible_literal(val, ok):
    """True iff the (symbolic) string certainly contains an ASCII character that no int/float literal may contain;
    decides ValueError without realising the string.  Non-ASCII characters (Unicode digits/spaces exist) decide nothing."""
    for bad in _NEVER_NUMERIC:          # fast path: a concrete delimiter somewhere in the token
        if bad in val:
            return True
    for ch in val:
        o = ord(ch)
        if o < 128 and not ok(o):
            return True
    return False


def _float(val=0.0):
    with NoTracing():
        if isinstance(val, B.SymbolicFloat):
            return val
        is_symbolic_str = isinstance(val, B.AnySymbolicStr)
        is_symbolic_int = isinstance(val, B.SymbolicInt)
        xl = _is_xl(val)
    if is_symbolic_str:
        match = B._FLOAT_REGEX.fullmatch(val)
        if match:
            ret = _float(int(match.group("intpart")))
            decimal_digits = match.group("fraction")
            if decimal_digits:
                denominator = realize(len(decimal_digits))
                ret += _float(int(decimal_digits)) / (10 ** denominator)
            if match.group("posneg") == "-":
                ret = -ret
            return ret
        # A character that no Python float literal can contain decides ValueError without realising the string
        # (otherwise CrossHair enumerates the symbolic characters one value at a time).
        if _impossible_literal(val, _float_ok):
            raise ValueError("could not convert string to float")
    elif is_symbolic_int:
        return val.__float__()
    elif xl:
        return type(val).__float__(val)
    return float(realize(val))


def _int(val=0, base=_MISSING):
    with NoTracing():
        xl = base is _MISSING and _is_xl(val)
        symf = base is _MISSING and isinstance(val, B.SymbolicFloat)
    if xl:
        return type(val).__int__(val)
    if symf:
        return val.__int__()
    with NoTracing():
        if isinstance(val, B.SymbolicInt):
            if base is not _MISSING:
                raise TypeError("int() can't convert non-string with explicit base")
            return val
        if isinstance(val, B.AnySymbolicStr):
            with ResumedTracing():
                if base is _MISSING:
                    base = 10
                if _impossible_literal(val, _int_ok):
                    raise ValueError("invalid literal for int()")
                if any([base < 2, base > 10, not val]):
                    return int(realize(val), base=realize(base))
                ret = 0
                for ch in val:
                    ch_num = ord(ch) - 48
                    if any((ch_num < 0, ch_num >= base)):
                        return int(realize(val), realize(base))
                    else:
                        ret = (ret * base) + ch_num
                return ret
        elif isinstance(val, CrossHairValue):
            val = deep_realize(val)
            if base is not _MISSING:
                base = deep_realize(base)
    return int(val) if base is _MISSING else int(val, base=base)


C._PATCH_REGISTRATIONS[float] = _float
C._PATCH_REGISTRATIONS[int] = _int


# ------------------------------------------------------------------ patch P2b: repr() of a symbolic string
# Error messages are built with f'...{repr(self.value)}...'; CrossHair realises a symbolic str at repr(), i.e. every
# error path enumerates the string values one by one.  Message texts are never asserted, so repr() of a symbolic
# string is a constant while tracing.
_orig_repr_patch = C._PATCH_REGISTRATIONS.get(repr)


def _repr(obj):
    with NoTracing():
        sym = isinstance(obj, B.AnySymbolicStr)
    if sym:
        return '<symbolic str>'
    return B.invoke_dunder(obj, "__repr__")


C._PATCH_REGISTRATIONS[repr] = _repr

# ------------------------------------------------------------------ patch P6: floats as reals
# CrossHair otherwise picks the IEEE bit-precise representation on 2% of the paths, where z3 answers
# `unknown` for int->fp conversions and the obligation can never be confirmed.  Every obligation that
# touches a float therefore states "floats modelled as reals"; counterexamples are replayed natively
# on real IEEE doubles, so a real-arithmetic artefact can never be reported as a violation.
B._PYTYPE_TO_WRAPPER_TYPE[float] = ((B.RealBasedSymbolicFloat, 1.0),)


def _real_float_init(self, smtvar, typ=float):
    # CrossHair caps every path that touches a real-modelled float at UNKNOWN (it never *confirms*
    # float code).  The cap is lifted here and replaced by the explicit, per-obligation stated
    # assumption "float operations are exact real arithmetic" (evidence: assumptions).
    B.SymbolicValue.__init__(self, smtvar, typ)
    FLOAT_PATHS[0] += 1


FLOAT_PATHS = [0]
B.RealBasedSymbolicFloat.__init__ = _real_float_init


# ------------------------------------------------------------------ patch P2 (tracing only)
class fmt_stub:
    """ExcelType.__format__ -> constant while tracing (error-message f-strings only)."""

    def __enter__(self):
        from xlcalculator.xlfunctions import func_xltypes as T
        self.T = T
        self.had = '__format__' in T.ExcelType.__dict__
        self.old = T.ExcelType.__dict__.get('__format__')
        T.ExcelType.__format__ = lambda self, spec: '<v>'
        return self

    def __exit__(self, *a):
        if self.had:
            self.T.ExcelType.__format__ = self.old
        else:
            del self.T.ExcelType.__format__


# ------------------------------------------------------------------ running an obligation
def _conditions(fn, pre, post_true: bool, capture):
    sig = resolve_signature(fn)
    if isinstance(sig, str):
        raise RuntimeError(f'cannot resolve signature of {fn}: {sig}')
    names = list(sig.parameters)
    fname = inspect.getsourcefile(fn) or '<harness>'
    try:
        line = fn.__code__.co_firstlineno
    except Exception:
        line = 0
    pres = []
    if pre is not None:
        pres.append(ConditionExpr(PRECONDITION, lambda l: pre(*[l[n] for n in names]), fname, line, 'pre'))
    if post_true:
        post = ConditionExpr(POSTCONDITION, lambda l: l['_'], fname, line, '_ is True')
    else:
        post = ConditionExpr(POSTCONDITION, lambda l: False, fname, line, 'False (reachability twin)')

    def maker(args, ret, repr_overrides):
        vals = [args.arguments[n] for n in names]
        capture.append(vals)
        return (f'{fn.__name__}({", ".join(repr(v) for v in vals)})', repr(ret))

    return Conditions(fn=fn, src_fn=fn, pre=pres, post=[post], raises=frozenset(), sig=sig,
                      mutable_args=None, fn_syntax_messages=[],
                      counterexample_description_maker=maker)


def analyze(fn, pre, timeout, post_true=True, ctx=None, max_iter=0):
    """Return (state, message, cex_args|None, stats)."""
    capture = []
    conds = _conditions(fn, pre, post_true, capture)
    stats = Counter()
    optset = AnalysisOptionSet(per_condition_timeout=float(timeout), per_path_timeout=float(timeout) * 0.6,
                               report_all=True, analysis_kind=[AnalysisKind.PEP316], stats=stats)
    if max_iter:
        optset.max_iterations = max_iter
    options = DEFAULT_OPTIONS.overlay(optset)
    checkable = C.ConditionCheckable(FunctionInfo.from_fn(fn), options, conds)
    q0, t0, u0 = SOLVER['queries'], SOLVER['time'], SOLVER['unknown']
    f0 = FLOAT_PATHS[0]
    w0 = time.perf_counter()
    with (ctx() if ctx else fmt_stub()):   # P2 is the default stub while tracing
        msgs = list(checkable.analyze())
    stats_out = {'real_floats': FLOAT_PATHS[0] - f0, 'paths': int(stats.get('num_paths', 0)), 'solver_queries': SOLVER['queries'] - q0,
                 'solver_time_s': round(SOLVER['time'] - t0, 4), 'solver_unknown': SOLVER['unknown'] - u0,
                 'wall_s': round(time.perf_counter() - w0, 3)}
    # worst message decides
    order = {MessageType.POST_FAIL: 0, MessageType.EXEC_ERR: 0, MessageType.POST_ERR: 0,
             MessageType.PRE_UNSAT: 1, MessageType.SYNTAX_ERR: 1, MessageType.CANNOT_CONFIRM: 2,
             MessageType.CONFIRMED: 3}
    msgs.sort(key=lambda m: order.get(m.state, 1))
    if not msgs:
        return 'CANNOT_CONFIRM', 'no message', None, stats_out
    m = msgs[0]
    cex = capture[-1] if (capture and m.state in (MessageType.POST_FAIL, MessageType.EXEC_ERR, MessageType.POST_ERR)) else None
    return m.state.name, m.message, cex, stats_out


def native(fn, args):
    """Run the harness natively. Returns (ok, detail)."""
    try:
        r = fn(*args)
    except Exception as e:
        return False, f'raised {type(e).__name__}: {e}'[:400]
    if r is True or (type(r).__name__ in ('bool_', 'bool') and bool(r)):
        return True, 'ok'
    return False, f'returned {r!r}'[:400]


def profile_functions(fn, args):
    """Repo functions entered during one native run (evidence: functions encoded)."""
    seen = set()

    def prof(frame, event, arg):
        if event == 'call':
            f = frame.f_code.co_filename
            i = f.find('/xlcalculator/')
            if i >= 0 and '/site-packages/' not in f and '/verif/' not in f:
                seen.add(f[i + 1:-3].replace('/', '.') + ':' + frame.f_code.co_qualname)
    sys.setprofile(prof)
    try:
        try:
            fn(*args)
        except Exception:
            pass
    finally:
        sys.setprofile(None)
    return sorted(seen)
