"""Driver: bin/check <Cxx> [--tier quick|thorough] [--replay file] [--only substr] [--jobs N]

Exit codes: 0 all obligations discharged (known findings printed as KNOWN-FINDING lines);
1 a counterexample reproduced on the real code (VIOLATION line); 3 inconclusive/harness error.
"""
import argparse
import hashlib
import importlib
import json
import math
import os
import queue
import subprocess
import sys
import threading
import time

ROOT = os.path.dirname(os.path.dirname(os.path.abspath(__file__)))
PY = os.path.join(ROOT, '.venv', 'bin', 'python')


TIER = ['quick']


def sh_env():
    env = dict(os.environ)
    env['PYTHONPATH'] = ROOT + ((':' + os.environ['VERIF_REPO']) if os.environ.get('VERIF_REPO') else '')
    env['PYTHONHASHSEED'] = '0'
    env['PYTHONDONTWRITEBYTECODE'] = '1'
    env.setdefault('XLCALCULATOR_VERIF', '1')
    if TIER[0] == 'thorough':
        env['KT_SECOND_SOLVER'] = '1'      # KT obligations are re-decided by the system z3 4.8.12 binary and by the cvc5 binary
    return env


class Runner:
    def __init__(self, prop, tier, seed, obs, jobs, twin_mod):
        self.prop, self.tier, self.seed, self.obs, self.jobs, self.twin_mod = prop, tier, seed, obs, jobs, twin_mod
        self.results = {}
        self.lock = threading.Lock()
        self.q = queue.Queue()

    def chunks(self, names):
        # longest-processing-time-first: heavy obligations alone and first, light ones batched
        by = sorted(names, key=lambda n: -self.obs[n].cost)
        total = sum(self.obs[n].cost for n in by) or 1.0
        target = max(8.0, total / (self.jobs * 6))
        out, cur, acc = [], [], 0.0
        for n in by:
            cur.append(n)
            acc += self.obs[n].cost
            if acc >= target or len(cur) >= 12:
                out.append(cur)
                cur, acc = [], 0.0
        if cur:
            out.append(cur)
        return out

    def worker_thread(self):
        while True:
            try:
                names = self.q.get_nowait()
            except queue.Empty:
                return
            self.run_chunk(names)

    def run_chunk(self, names):
        cmd = [PY, '-m', 'vf.worker', self.prop, self.tier, str(self.seed), str(self.twin_mod)] + names
        p = subprocess.Popen(cmd, stdout=subprocess.PIPE, stderr=subprocess.PIPE, text=True, cwd=ROOT, env=sh_env())
        state = {'cur': None, 'since': time.time(), 'done': set()}
        errbuf = []

        def read_err():
            for line in p.stderr:
                errbuf.append(line)
                if len(errbuf) > 200:
                    del errbuf[:100]
        te = threading.Thread(target=read_err, daemon=True)
        te.start()
        killed = {'flag': False}

        def watchdog():
            while p.poll() is None:
                time.sleep(1.0)
                cur = state['cur']
                if cur is None:
                    limit = 600  # import + model building
                else:
                    ob = self.obs[cur]
                    limit = ob.timeout * (3 if self.twin_mod else 2) + 240
                if time.time() - state['since'] > limit:
                    killed['flag'] = True
                    try:
                        p.kill()
                    except Exception:
                        pass
                    return
        tw = threading.Thread(target=watchdog, daemon=True)
        tw.start()
        for line in p.stdout:
            if line.startswith('START '):
                state['cur'] = line[6:].strip()
                state['since'] = time.time()
            elif line.startswith('RESULT '):
                r = json.loads(line[7:])
                with self.lock:
                    self.results[r['name']] = r
                state['done'].add(r['name'])
                state['cur'] = None
                state['since'] = time.time()
        p.wait()
        rest = [n for n in names if n not in state['done']]
        if rest:
            cur = state['cur']
            if cur in rest:
                with self.lock:
                    self.results[cur] = {'name': cur, 'kind': self.obs[cur].kind, 'family': self.obs[cur].family,
                                         'status': 'INCONCLUSIVE',
                                         'detail': ('hard wall timeout' if killed['flag'] else f'worker died rc={p.returncode}: ' + ''.join(errbuf)[-800:])}
                rest.remove(cur)
            elif not killed['flag'] and cur is None and rest:
                # died before starting (import error): mark the first to avoid an endless loop
                n0 = rest.pop(0)
                with self.lock:
                    self.results[n0] = {'name': n0, 'kind': self.obs[n0].kind, 'family': self.obs[n0].family,
                                        'status': 'HARNESS_ERROR', 'detail': f'worker died rc={p.returncode}: ' + ''.join(errbuf)[-1500:]}
            if rest:
                self.run_chunk(rest)

    def run(self, names):
        for c in self.chunks(names):
            self.q.put(c)
        ts = [threading.Thread(target=self.worker_thread) for _ in range(self.jobs)]
        for t in ts:
            t.start()
        for t in ts:
            t.join()
        return self.results


def native_replay(prop, tier, seed, name, args_repr):
    cmd = [PY, '-m', 'vf.worker', '--native', prop, tier, str(seed), name, args_repr]
    try:
        out = subprocess.run(cmd, capture_output=True, text=True, cwd=ROOT, env=sh_env(), timeout=600)
    except subprocess.TimeoutExpired:
        return {'ok': False, 'detail': 'replay timed out'}
    lines = [l for l in out.stdout.splitlines() if l.startswith('{')]
    if not lines:
        return {'ok': None, 'detail': 'replay crashed: ' + out.stderr[-800:]}
    return json.loads(lines[-1])


def main():
    ap = argparse.ArgumentParser()
    ap.add_argument('prop')
    ap.add_argument('--tier', default=os.environ.get('VERIF_TIER', 'quick'), choices=['quick', 'thorough'])
    ap.add_argument('--replay')
    ap.add_argument('--only', default=None)
    ap.add_argument('--jobs', type=int, default=int(os.environ.get('VERIF_JOBS', '0')) or min(16, os.cpu_count() or 4))
    ap.add_argument('--list', action='store_true')
    ap.add_argument('--no-evidence', action='store_true')
    a = ap.parse_args()
    prop = a.prop.upper()
    TIER[0] = a.tier
    seed = int(os.environ.get('VERIF_SEED', '0') or 0)
    t0 = time.time()
    sys.path.insert(0, ROOT)
    os.environ.setdefault('XLCALCULATOR_VERIF', '1')
    from vf import kf

    if a.replay:
        rp = json.load(open(a.replay))
        r = native_replay(prop, rp.get('tier', a.tier), rp.get('seed', 0), rp['obligation'], rp['args'])
        print(f"replay {rp['obligation']} args={rp['args']}: {r}")
        if r.get('ok') is False:
            print(f'VIOLATION property={prop} replay={os.path.abspath(a.replay)}')
            return 1
        return 0 if r.get('ok') else 3

    mod = importlib.import_module('props.' + prop.lower())
    oblist = mod.build(a.tier, seed)
    for o in oblist:
        o.timeout = o.timeout * float(os.environ.get('VERIF_TIMEOUT_FACTOR', '3'))      # same head-room factor as the workers (watchdog)
    obs = {o.name: o for o in oblist}
    names = [o.name for o in oblist if (a.only is None or a.only in o.name)]
    if a.list:
        for n in names:
            print(n, obs[n].timeout, obs[n].bounds)
        print(len(names))
        return 0
    twin_mod = 1 if a.tier == 'thorough' else 6
    runner = Runner(prop, a.tier, seed, obs, a.jobs, twin_mod)
    results = runner.run(names)

    # ---- known findings: replay witnesses
    kf_lines, kf_notes = [], []
    for e in kf.entries(prop):
        if e['status'] != 'known':
            continue
        w = e['witness']
        if w['obligation'] not in obs:
            kf_notes.append(f"NOTE: known finding {e['id']} names an obligation not built in this tier")
            # still print the KNOWN-FINDING line only if verifiable; otherwise note
            continue
        r = native_replay(prop, a.tier, seed, w['obligation'], w['args'])
        if r.get('ok') is False:
            kf_lines.append(f"KNOWN-FINDING: property={prop} {e['id']}: {e['what']} [witness {w['obligation']}{w['args']} -> {r.get('detail')}]")
        else:
            kf_notes.append(f"NOTE: known finding {e['id']} no longer reproduces ({r.get('detail')}); retire the entry")

    # ---- verdicts
    viol, inconc = [], []
    for n in names:
        r = results.get(n) or {'name': n, 'status': 'INCONCLUSIVE', 'detail': 'no result'}
        results[n] = r
        if r['status'] == 'VIOLATED':
            viol.append(r)
        elif r['status'] not in ('CONFIRMED', 'REFUTED_AS_EXPECTED', 'CARVED'):
            inconc.append(r)
    replay_paths = []
    os.makedirs(os.path.join(ROOT, 'replays'), exist_ok=True)
    for r in viol:
        h = hashlib.sha1((r['name'] + r.get('cex', '')).encode()).hexdigest()[:10]
        path = os.path.join(ROOT, 'replays', f'{prop}-{h}.json')
        json.dump({'property': prop, 'obligation': r['name'], 'args': r.get('cex', '()'), 'tier': a.tier, 'seed': seed,
                   'case': r.get('case'), 'observed': r.get('replay') or r.get('detail'),
                   'replay_cmd': f'bin/check {prop} --replay {path}'}, open(path, 'w'), indent=1)
        replay_paths.append(path)
    wall = time.time() - t0
    os.makedirs(os.path.join(ROOT, '.work'), exist_ok=True)
    json.dump(results, open(os.path.join(ROOT, '.work', f'results-{prop}-{a.tier}.json'), 'w'), indent=1, default=str)
    if not a.no_evidence:
        write_evidence(prop, a.tier, seed, mod, names, obs, results, viol, inconc, kf_lines, wall, a.only)
    for l in kf_lines:
        print(l)
    for l in kf_notes:
        print(l)
    n_ok = sum(1 for n in names if results[n]['status'] in ('CONFIRMED', 'REFUTED_AS_EXPECTED'))
    n_carved = sum(1 for n in names if results[n]['status'] == 'CARVED')
    print(f'{prop} tier={a.tier}: obligations={len(names)} discharged={n_ok} carved_by_known_findings={n_carved} violated={len(viol)} inconclusive={len(inconc)} wall={wall:.1f}s')
    for r in inconc[:40]:
        print(f"INCONCLUSIVE property={prop} obligation={r['name']} status={r['status']} reason={str(r.get('detail'))[:300]}")
    for r, p in list(zip(viol, replay_paths))[:40]:
        print(f"  counterexample {r['name']}: {r.get('case')} -> {r.get('replay') or r.get('detail')}")
    for r, p in zip(viol, replay_paths):
        print(f'VIOLATION property={prop} replay={p}')
    if viol:
        return 1
    if inconc:
        return 3
    return 0


def write_evidence(prop, tier, seed, mod, names, obs, results, viol, inconc, kf_lines, wall, only):
    fams = {}
    functions = set()
    stubs = set()
    for n in names:
        r = results[n]
        f = fams.setdefault(r.get('family') or obs[n].family, {'obligations': 0, 'discharged': 0, 'paths': 0, 'solver_queries': 0,
                                                                'solver_time_s': 0.0, 'bounds': obs[n].bounds, 'max_wall_s': 0.0})
        f['obligations'] += 1
        if r['status'] in ('CONFIRMED', 'REFUTED_AS_EXPECTED'):
            f['discharged'] += 1
        f['paths'] += int(r.get('paths') or 0)
        f['solver_queries'] += int(r.get('solver_queries') or 0)
        f['solver_time_s'] = round(f['solver_time_s'] + float(r.get('solver_time_s') or 0), 3)
        f['max_wall_s'] = max(f['max_wall_s'], float(r.get('total_wall_s') or 0))
        functions.update(r.get('functions') or [])
        stubs.update(r.get('stubs') or [])
    discharged = sum(1 for n in names if results[n]['status'] in ('CONFIRMED', 'REFUTED_AS_EXPECTED'))
    nontrivial = sum(1 for n in names if results[n]['status'] in ('CONFIRMED', 'REFUTED_AS_EXPECTED')
                     and int(results[n].get('solver_queries') or 0) > 0 and int(results[n].get('paths') or 0) >= 1)
    twins = [results[n] for n in names if 'twin' in results[n]]
    samples = []
    seen_f = set()
    for n in names:
        r = results[n]
        if r.get('family') in seen_f and r['status'] == 'CONFIRMED':
            continue
        seen_f.add(r.get('family'))
        samples.append({k: r.get(k) for k in ('name', 'kind', 'status', 'bounds', 'paths', 'solver_queries', 'solver_time_s',
                                              'total_wall_s', 'twin', 'case', 'cex', 'detail') if r.get(k) is not None})
        if len(samples) >= 60:
            break
    ev = {
        'property_id': prop, 'tier': tier, 'seed': seed, 'level': 'model_checking',
        'coverage': {
            'evaluations': len(names),
            'distinct_nontrivial': nontrivial,
            'rule': 'one evaluation = one proof obligation (harness over the real code with symbolic arguments, or a kernel '
                    'translated from the source), decided by z3 over all values within its bounds; obligation names are distinct by '
                    'construction; non-trivial = discharged with >= 1 explored path and >= 1 solver query',
            'states': max(1, sum(int(results[n].get('paths') or 0) for n in names)),
            'transitions': max(1, sum(int(results[n].get('solver_queries') or 0) for n in names)),
            'traces_validated_against_impl': sum(int(results[n].get('witness_ok') or 0) + int(results[n].get('translator_validation_cases') or 0) + (1 if results[n].get('replay') else 0) for n in names),
            'states_transitions_meaning': 'states = symbolic paths (XH: CrossHair iterations; KT: leaves) explored by this run; transitions = solver queries (branch feasibility and deciding queries); '
                                          'traces_validated_against_impl = concrete inputs run natively on the real code (witnesses, translator-validation cases, counterexample replays)',
            'obligations': len(names), 'discharged': discharged, 'carved_by_known_findings': sum(1 for n in names if results[n]['status'] == 'CARVED'), 'inconclusive': len(inconc), 'violated': len(viol),
            'paths': sum(int(results[n].get('paths') or 0) for n in names),
            'solver_queries': sum(int(results[n].get('solver_queries') or 0) for n in names),
            'solver_time_s': round(sum(float(results[n].get('solver_time_s') or 0) for n in names), 2),
            'solver_unknown_answers': sum(int(results[n].get('solver_unknown') or 0) for n in names),
            'families': fams,
            'functions_encoded': sorted(functions),
            'stubs': sorted(stubs),
            'second_solver_agreements': sum(int((results[n].get('second_solver') or {}).get('agree', 0)) for n in names),
            'second_solver_agreements_z3_4_8_12': sum(int((results[n].get('second_solver') or {}).get('z3-4.8.12', 0)) for n in names),
            'second_solver_agreements_cvc5': sum(int((results[n].get('second_solver') or {}).get('cvc5', 0)) for n in names),
            'second_solver_inconclusive': sum(int((results[n].get('second_solver') or {}).get('inconclusive', 0)) for n in names),
            'second_solver_disagreements': sum(int((results[n].get('second_solver') or {}).get('disagree', 0)) for n in names),
            'translator_validation_cases': sum(int(results[n].get('translator_validation_cases') or 0) for n in names),
            'twins_run': len(twins), 'twins_violated': sum(1 for r in twins if r['twin'] == 'violated'),
            'known_findings_printed': kf_lines,
            'samples': samples,
            'exhaustive': False,
            'explanation': getattr(mod, 'EXPLANATION', ''),
            'checker_cmd': f'bin/check {prop} --tier {tier}' + (f' --only {only}' if only else ''),
            'trusted_base': ['CrossHair 0.0.110 symbolic semantics of CPython', 'z3 5.1.0'] + list(getattr(mod, 'TRUSTED', [])),
        },
        'assumptions': list(getattr(mod, 'ASSUMPTIONS', [])),
        'wall_s': round(wall, 2),
        'violations': len(viol),
    }
    os.makedirs(os.path.join(ROOT, 'evidence'), exist_ok=True)
    with open(os.path.join(ROOT, 'evidence', f'{prop}.json'), 'w') as f:
        json.dump(ev, f, indent=1, default=str)


if __name__ == '__main__':
    sys.exit(main())
