"""Verification framework for bradbase/xlcalculator: solver-based checking of the real code.

Engines: XH (CrossHair symbolic execution of the real modules, z3 deciding each path) and
KT (kernel translator: the real function source -> z3 terms by a path-forking interpreter).
See /verif/DESIGN.md.
"""
