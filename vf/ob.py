"""Obligation objects shared by driver and workers."""
import inspect
from typing import Any, Callable, Dict, List, Optional, Sequence, Tuple


def TOTAL(*a):
    """Region predicate of a known finding that covers a whole obligation (the obligation is skipped while the
    finding is listed as known; its witness is still replayed on every run)."""
    return True


class Ob:
    """One proof obligation.

    kind 'xh': `fn` is a harness over the real code with type-annotated parameters (the symbolic
    variables); it returns True iff the property's assertion holds for those arguments.  `pre`
    (same parameters) gives the bounds.  CrossHair executes `fn` symbolically; z3 decides every
    path; CONFIRMED means: for all arguments satisfying `pre`, `fn` returns True and raises
    nothing, on every path.

    kind 'kt': `run` is a callable returning a result dict (kernel-translator obligations build
    their own z3 query from the repo's source).
    """

    def __init__(self, name: str, fn: Optional[Callable] = None, pre: Optional[Callable] = None,
                 witness: Optional[Sequence[Tuple]] = None, timeout: float = 60.0,
                 bounds: str = '', kind: str = 'xh', run: Optional[Callable] = None,
                 stubs: Sequence[str] = (), ctx: Optional[Callable] = None,
                 known: Optional[Dict[str, Callable]] = None, family: str = '',
                 show: Optional[Callable] = None, expect_refuted: bool = False,
                 max_iter: int = 0, cost: float = 0.0):
        self.name = name
        self.fn = fn
        self.pre = pre
        # witness: list of concrete argument tuples that satisfy pre and must pass natively
        self.witness = list(witness or [])
        self.timeout = timeout
        self.bounds = bounds
        self.kind = kind
        self.run = run
        self.stubs = list(stubs)
        self.ctx = ctx              # context-manager factory applied only while tracing (stubs)
        self.known = dict(known or {})   # KF id -> region predicate over the arguments
        self.family = family or name.split('[')[0]
        self.show = show            # optional: args -> human-readable description of the case
        self.expect_refuted = expect_refuted   # reachability twins / self-tests of the oracle
        self.max_iter = max_iter
        self.cost = cost or timeout   # scheduling hint only (expected seconds)

    def describe(self, args) -> str:
        if self.show is not None:
            try:
                return str(self.show(*args))
            except Exception as e:  # pragma: no cover
                return f'<show failed: {e!r}>'
        return f'{self.name}{tuple(args)!r}'

    def params(self) -> List[str]:
        return list(inspect.signature(self.fn).parameters) if self.fn else []
