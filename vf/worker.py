"""Worker process: runs a list of obligations of one property, one JSON line per result.

usage: python -m vf.worker <prop> <tier> <seed> <twin_mod> <name> [<name> ...]
       python -m vf.worker --native <prop> <tier> <seed> <name> <args-repr>
"""
import ast
import importlib
import json
import os
import sys
import time
import traceback

sys.setrecursionlimit(10000)
try:
    import resource
    _lim = 10 * 1024 ** 3
    resource.setrlimit(resource.RLIMIT_AS, (_lim, _lim))   # a runaway evaluation must fail, not take the machine down
except Exception:
    pass


def load(prop, tier, seed):
    mod = importlib.import_module('props.' + prop.lower())
    obs = mod.build(tier, seed)
    # head-room: CPU budgets are sized on this sandbox; the machine that runs the checks may be slower or loaded
    factor = float(os.environ.get('VERIF_TIMEOUT_FACTOR', '3'))
    for o in obs:
        o.timeout = o.timeout * factor
    names = [o.name for o in obs]
    assert len(set(names)) == len(names), 'duplicate obligation names: ' + str([n for n in names if names.count(n) > 1][:5])
    return mod, {o.name: o for o in obs}


def carved_pre(ob, known):
    regions = [r for k, r in ob.known.items() if k in known]
    if not regions:
        return ob.pre, []
    base = ob.pre

    def pre(*a):
        if base is not None and not base(*a):
            return False
        for r in regions:
            if r(*a):
                return False
        return True
    return pre, [k for k in ob.known if k in known]


def run_xh(ob, known, do_twin):
    from vf import xh
    res = {'name': ob.name, 'kind': 'xh', 'family': ob.family, 'bounds': ob.bounds, 'stubs': ob.stubs,
           'timeout': ob.timeout}
    from vf.ob import TOTAL
    if any(r is TOTAL and k in known for k, r in ob.known.items()):
        res.update(status='CARVED', detail='whole obligation carved out by a listed known finding', carved=[k for k in ob.known if k in known],
                   paths=0, solver_queries=0, solver_time_s=0.0)
        return res
    pre, carved = carved_pre(ob, known)
    res['carved'] = carved
    # native witnesses (vacuity guard i + baseline)
    wit_ok = 0
    for w in ob.witness:
        if pre is not None and not pre(*w):
            continue  # outside this tier's bounds or inside a carved region
        ok, detail = xh.native(ob.fn, w)
        if not ok and not ob.expect_refuted:
            res.update(status='VIOLATED', detail=f'native witness fails: {detail}', cex=repr(tuple(w)),
                       case=ob.describe(w), reproduced=True, paths=0, solver_queries=0, solver_time_s=0.0)
            return res
        wit_ok += 1
    res['witness_ok'] = wit_ok
    if ob.witness:
        res['functions'] = xh.profile_functions(ob.fn, ob.witness[0])
    state, msg, cex, st = xh.analyze(ob.fn, pre, ob.timeout, True, ob.ctx, ob.max_iter)
    res.update(st)
    res['xh_state'] = state
    if state == 'CONFIRMED':
        res['status'] = 'INCONCLUSIVE' if ob.expect_refuted else 'CONFIRMED'
        res['detail'] = 'expected a refutation (oracle self-test) but was confirmed' if ob.expect_refuted else msg
    elif state in ('POST_FAIL', 'EXEC_ERR', 'POST_ERR'):
        res['detail'] = msg[:600]
        if cex is None:
            res['status'] = 'INCONCLUSIVE'
        else:
            res['cex'] = repr(tuple(cex))
            res['case'] = ob.describe(cex)
            try:
                back = ast.literal_eval(res['cex'])
            except Exception:
                back = tuple(cex)
            ok, detail = xh.native(ob.fn, back)
            res['replay'] = detail
            if ob.expect_refuted:
                res['status'] = 'REFUTED_AS_EXPECTED' if not ok else 'INCONCLUSIVE'
            elif not ok:
                res['status'] = 'VIOLATED'
                res['reproduced'] = True
            else:
                res['status'] = 'SPURIOUS'
                res['reproduced'] = False
    else:
        res['status'] = 'INCONCLUSIVE'
        res['detail'] = f'{state}: {msg}'[:400]
    if do_twin and res['status'] == 'CONFIRMED':
        tstate, tmsg, tcex, tst = xh.analyze(ob.fn, pre, ob.timeout, False, ob.ctx, ob.max_iter)
        res['twin'] = 'violated' if tstate == 'POST_FAIL' else f'NOT violated ({tstate})'
        res['twin_paths'] = tst['paths']
        if tstate != 'POST_FAIL':
            res['status'] = 'INCONCLUSIVE'
            res['detail'] = 'reachability twin not violated: harness may be vacuous'
    return res


def main(argv):
    if argv[0] == '--native':
        _, prop, tier, seed, name, args = argv
        mod, obs = load(prop, tier, int(seed))
        from vf import xh
        ob = obs[name]
        a = ast.literal_eval(args)
        if ob.kind == 'xh':
            ok, detail = xh.native(ob.fn, a)
            print(json.dumps({'ok': ok, 'detail': detail, 'case': ob.describe(a)}))
        else:
            print(json.dumps(ob.run(replay=a)))
        return 0
    prop, tier, seed, twin_mod = argv[0], argv[1], int(argv[2]), int(argv[3])
    names = argv[4:]
    from vf import kf
    known = kf.known_ids(prop.upper())
    mod, obs = load(prop, tier, seed)
    for i, name in enumerate(names):
        print('START ' + name, flush=True)
        ob = obs[name]
        t = time.perf_counter()
        try:
            if ob.kind == 'xh':
                import zlib
                do_twin = (twin_mod == 1) or (twin_mod > 1 and (zlib.crc32(name.encode()) + seed) % twin_mod == 0)
                res = run_xh(ob, known, do_twin)
            else:
                res = ob.run(known=known)
                res.setdefault('name', ob.name)
                res.setdefault('kind', ob.kind)
                res.setdefault('family', ob.family)
                res.setdefault('bounds', ob.bounds)
        except BaseException as e:  # noqa
            if isinstance(e, KeyboardInterrupt):
                raise
            res = {'name': name, 'kind': ob.kind, 'family': ob.family, 'status': 'HARNESS_ERROR',
                   'detail': f'{type(e).__name__}: {e}\n' + traceback.format_exc()[-1500:]}
        res['total_wall_s'] = round(time.perf_counter() - t, 3)
        print('RESULT ' + json.dumps(res, default=str), flush=True)
    return 0


if __name__ == '__main__':
    sys.exit(main(sys.argv[1:]))
