"""Source table for MANIFEST.json (run tools_manifest.py after editing)."""
HOOK_COMMITS = []
NOTES = ('Every check is bounded symbolic model checking of the real code: CrossHair executes the real xlcalculator functions on symbolic '
         'inputs and z3 decides every path (XH), or the real source of a kernel is translated to z3 terms (KT). Exit 0 = all obligations '
         'discharged; 1 = counterexample reproduced natively on the real code (VIOLATION line); 3 = inconclusive (never reported as success). '
         'Known findings are listed in KNOWN_FINDINGS.json. See DESIGN.md.')
XH_NOTE = ('Trusted: CrossHair\'s symbolic semantics of CPython, z3; harness-side patches P1 (float()/int() protocol), P2 (ExcelType.__format__ '
           'constant while tracing), P6 (floats modelled as exact reals). Claims hold only within the bounds printed per obligation family in the evidence.')
CHECKS = {
    'C01': dict(engine='XH', technique='symbolic execution (CrossHair+z3) of tokenizer/parser/evaluator per enumerated operator shape; operand values solver-quantified',
                text='Bounded symbolic model checking: for every ordered operator pair (and sampled/all triples) the real parse of the rendered formula '
                     'evaluates, for ALL operand values in the stated ranges and all unary-minus placements, to the value of Excel\'s reference tree; operator '
                     'meaning vs Python integer semantics; rendering invariance (blanks, redundant parentheses); #DIV/0! propagation.',
                note=XH_NOTE),
    'C02': dict(engine='XH', technique='symbolic execution (CrossHair+z3) of the real tokenizer+parser on formula text with symbolic string/sheet/number content and symbolic white-space placement',
                text='Bounded symbolic model checking: for string literals over ALL code points (length <= 3, thorough 4) at 10 placements, quoted sheet names '
                     '(all valid titles up to length 2/3), integer literals, all $ placements, every single/pair white-space placement and leading-= spelling on 10 '
                     'construct-covering skeletons and enumerated tree skeletons, the real parse equals the tree the text denotes (oracle = the generator\'s own tree).',
                note=XH_NOTE + ' The named-range table handed to the parser is an empty dict subclass whose membership test compares by equality (avoids hashing symbolic strings).'),
    'C09': dict(engine='XH', technique='symbolic execution (CrossHair+z3) of the six comparison operators over typed symbolic operand pairs/triples vs a key-order oracle',
                text='Bounded symbolic model checking: for every pair of operand types (int, float, text, boolean; dates and blanks separately) all six operators, '
                     'as OP_* calls and as formulas, equal the order number < text(case-insensitive) < FALSE < TRUE for ALL values in the bounds; trichotomy/duality/'
                     'transitivity asserted directly; blank = 0 = "" = FALSE and blank = blank.',
                note=XH_NOTE + ' Text-vs-text is bounded to a 6-letter alphabet (length <= 2) plus all code points at length <= 1 because of z3 string-order cost.'),
    'C17': dict(engine='XH', technique='symbolic execution (CrossHair+z3) of the text functions on symbolic text/positions vs slicing oracles and the stated identities',
                text='Bounded symbolic model checking: LEN, LEFT, RIGHT, MID, FIND, REPLACE, UPPER, LOWER, TRIM, EXACT, CONCAT, CONCATENATE and & equal 1-based slicing for ALL '
                     'texts (all code points, length <= 3; thorough 4) and ALL positions/counts from below 1 to beyond the length; identities asserted on the implementation; '
                     'library and formula forms; numbers/booleans as text.',
                note=XH_NOTE + ' FIND is bounded tighter (|s| <= 2 unicode; |s| <= 3..4 over the alphabet abA) because of z3 string cost.'),
    'C06': dict(engine='XH', technique='symbolic execution (CrossHair+z3) of the real evaluator over all dependency graphs on <= 3 (thorough 4) cells selected by symbolic choices, vs a DFS reachability oracle',
                text='Bounded symbolic model checking: for every dependency graph on 3 cells (13 formula alternatives per cell incl. self/repeated/range references; thorough: 4 cells, 11 alternatives) '
                     'and every start cell, with ALL integer constants: cycle reachable <=> an exception mentioning a cycle is raised within a fixed frame budget; otherwise the reference value and never '
                     'a cycle report; cycles of every length/tail/entry incl. through ranges; failure-message length polynomial in the chain depth (d <= 20).',
                note=XH_NOTE + ' Time is measured in interpreter frames (recursion budget), not wall-clock; memory is bounded by RLIMIT_AS of the worker.'),
    'C04': dict(engine='XH', technique='symbolic execution (CrossHair+z3) of Evaluator/Model over all set/evaluate history skeletons up to a length bound with symbolic written values',
                text='Bounded symbolic model checking: on 4 compiled models (chain, diamond, range consumer, two sheets + defined names) every history of length 3 (thorough 4) over '
                     '{set input (also via its name), evaluate cell (also via its name)} gives, for ALL integer values written, the value of an independent reference function of the current '
                     'inputs = a fresh evaluation on a second compiled copy; stored value and get_cell_value agree.',
                note=XH_NOTE + ' Histories beyond the length bound and models beyond 7 cells are outside.'),
    'C05': dict(engine='XH', technique='symbolic execution (CrossHair+z3) of the Evaluator over all evaluation schedules up to a length bound, one/two evaluators, symbolic inputs; structural memory proxy',
                text='Bounded symbolic model checking: every schedule of 3 (thorough 4) evaluations with repetitions, by one or two evaluators sharing the model, yields for ALL integer inputs the '
                     'reference value for each cell; model constants, formula texts, defined names and key sets unchanged; no evaluation context survives and no evaluator container grows on repetition.',
                note=XH_NOTE + ' The RSS/tracemalloc formulation of the memory clause is outside the technique; only the structural proxy is decided.'),
    'C13': dict(engine='XH', technique='symbolic execution (CrossHair+z3) of ModelCompiler.extract + Evaluator on compiled models with symbolic inputs, symbolic focus subsets and symbolic later input changes',
                text='Bounded symbolic model checking: on 5 compiled models (depth 0..4, diamond, ranges, two sheets, defined names) for every non-empty focus subset (thorough: all; quick: sparse on the '
                     'largest model) and ALL integer inputs, every focused cell/name evaluates alike in the extracted and the original model and equals an independent reference, also after 1 (thorough 2) '
                     'input changes applied to both; the extracted model contains the transitive closure; the original is unchanged.',
                note=XH_NOTE),
    'C03': dict(engine='XH', technique='symbolic execution (CrossHair+z3) of RangeNode/Evaluator/ModelCompiler on compiled multi-sheet workbooks with symbolic cell contents; addresses enumerated',
                text='Bounded symbolic model checking: all $ / qualified / quoted spellings of a reference to the same target on 3 sheets (names with blank and apostrophe), incl. chains crossing '
                     'sheets, evaluate to the target value for ALL ints; every rectangle up to 2x3 (thorough 3x3) at two offsets with Optional[int] cells and a sentinel frame: SUM/COUNT/COUNTA = fold '
                     'over exactly its cells; blank gaps of 0..128 rows (quick: 12 gap lengths around 50/100/128); defined names for cells and ranges; missing cells read as blank.',
                note=XH_NOTE + ' Addresses are concrete (openpyxl regexes on symbolic address text do not finish); whole-column references and 3-D references are outside.'),
    'C10': dict(engine='XH', technique='symbolic execution (CrossHair+z3) of IF/AND/OR/NOT through the evaluator with a spy function in its namespace; truth-carrying cells symbolic over bool/int/blank',
                text='Bounded symbolic model checking: IF selects by Excel truth (bool, non-zero number, blank) for ALL values, evaluates exactly the selected branch (spy log), is unaffected by a 1/0, '
                     'unknown function, circular reference or Python error in the other branch, nested to depth 2 over AND/OR/NOT; AND/OR over 1..4 scalars and ranges = conjunction/disjunction of non-blank '
                     'elements; NOT negates; an error among evaluated arguments / as condition is the result.',
                note=XH_NOTE + ' AND/OR over blanks only is not covered by the statement and excluded.'),
    'C07': dict(engine='XH', technique='symbolic execution (CrossHair+z3) of operators, every registered function (live registry) and aggregates with an error object at a symbolic position/code and symbolic typed operands',
                text='Bounded symbolic model checking: for each of the 13 operators (library + formula forms) an error at left/right/both is the result (leftmost wins) for ALL other operands over '
                     'int/text/bool/blank; for every pair of scalar types (int, text, bool, blank, date) operators return a value or #VALUE!/#DIV/0!/#NUM! and never raise; every registered function '
                     '(~100, enumerated at run time) x every argument position x 7 error codes returns that error; aggregates over lists and ranges; errors stored in cells and handed on; IS* truth tables.',
                note=XH_NOTE + ' P4: dateutil.parser.parse is replaced while tracing by its contract (datetime or ValueError, chosen by a symbolic Boolean); P2b: repr() of a symbolic string is a constant. '
                     'Texts in the no-crash family: quick = single characters of a 10-letter alphabet, thorough = printable ASCII (length 1) and that alphabet (length 2).'),
    'C14': dict(engine='XH', technique='symbolic execution (CrossHair+z3) of SUM/AVERAGE/MIN/MAX/COUNT/COUNTA/SUMPRODUCT through compiled formulas over rectangles with symbolic int/blank cells and a text cell at a symbolic position, vs folds',
                text='Bounded symbolic model checking: for rectangles up to 1x3 / 2x2 (thorough up to 2x3 / 3x2) whose cells are Optional[int] (blank pattern forked, ints unbounded) with a non-numeric text cell at '
                     'any position, the aggregates equal the fold over exactly the addressed values (mean by cross-multiplication), MIN <= AVERAGE <= MAX, SUM is additive over splits, results are invariant '
                     'under argument order and content permutation; SUMPRODUCT = sum of element-wise products, #VALUE! on shape mismatch.',
                note=XH_NOTE + ' Numeric-looking text and booleans inside ranges are outside the statement; MIN/MAX orderings limit the rectangle size (n! paths).'),
    'C15': dict(engine='XH', technique='symbolic execution (CrossHair+z3) of COUNTIF/COUNTIFS/MATCH/VLOOKUP/CHOOSE through compiled formulas over columns/tables with symbolic cells, vs linear scans',
                text='Bounded symbolic model checking: COUNTIF for each of the 7 criterion prefixes with numeric operands -3..3 (forked, negative included) and text operands, over columns of ALL ints '
                     'with a text cell at any position; COUNTIFS with two criteria; MATCH exact (first position, #N/A) and approximate (last position <= key, beyond the last element); VLOOKUP exact over a '
                     '3x3 table with duplicate keys and every column index 0..4; CHOOSE with indices -2..5 and fractional indices.',
                note=XH_NOTE + ' Criterion operands and text cell contents are forked over small sets (the criteria regex on a symbolic string does not finish); SUMIF/SUMIFS are skipped because the installed pandas lacks DataFrame.applymap (the statement excludes them in that case).'),
    'C19': dict(engine='KT', technique='kernel translation: the real source of the 12 conversion functions interpreted symbolically into z3 (Int arithmetic, digit strings as code-point vectors); one unsat/sat query per obligation',
                text='Bounded symbolic model checking by source->SMT translation: DEC2BIN/OCT/HEX for EVERY integer in -2^41..2^41 and every places -2..12 at once; BIN/OCT/HEX2DEC and the six cross '
                     'conversions for EVERY digit string of each length 0..11 over the code points 32..126 (valid digits, both cases, invalid characters, fractional/negative strings) and every places; '
                     'whole Number arguments read through their decimal digits; boolean -> #VALUE!, blank -> 0; there-and-back lemma. Solver models and boundary inputs are replayed on the real functions and '
                     'pushed through the encoding (translator validation) on every run.',
                note='Trusted: kt/kt.py (path-forking interpreter of the Python subset used), kt/models.py (int/str/len/set/bin/oct/hex/zfill/upper models), z3; Python ints as mathematical integers. '
                     'Number arguments for octal sources are bounded to 10^5 (z3 unknown beyond).'),
    'C18': dict(engine='KT', technique='kernel translation: the real source of the serial/date kernels and date functions interpreted symbolically into z3 (Int/Real arithmetic; datetime as ordinal + seconds; calendar fields as uninterpreted functions / days-from-civil); one query per obligation',
                text='Bounded symbolic model checking by source->SMT translation: serial<->date is the 1900 system and a bijection for EVERY whole serial 1..2958465 (one query each); time of day = fraction; '
                     'DAY/MONTH/YEAR/ISOWEEKNUM and WEEKDAY (all ten return types, every invalid type) for every serial 61..2958465; DATE(YEAR,MONTH,DAY)=n; DATE carry for all months/days in -60..60 '
                     '(thorough -2000..2000) on 10 representative years; EDATE/EOMONTH for every day of 7 representative years x offsets -24..24 (thorough -120..120); DAYS over all pairs of serials 1..2958465 without 60 (the class\'s own __sub__ interpreted), DATEDIF("d") and YEARFRAC bases 2/3 over '
                     'all pairs of serials 61..; DATEDIF "M"/"Y" = complete months/years for every start day of 7 representative years x every end from 40 days before to 400/1500 (thorough 1100/3700) days after. YEARFRAC bases 0 and 4 = (360 dy + 30 dm + dd)/360 for every day of 5 representative years x 500 (thorough 1500) days either way where neither day of month exceeds 27, with the installed yearfrac package interpreted from source. Thorough: every deciding query re-decided by z3 4.8.12 and cvc5. Boundary inputs and solver models are replayed on the real functions.',
                note='Trusted: kt/kt.py, kt/models_date.py (datetime/timedelta/relativedelta/rrule(DAILY/MONTHLY/YEARLY) models, days-from-civil formula), z3. Outside: DATEDIF units MD/YM/YD (not in the statement), YEARFRAC basis 1 and bases 0/4 on days 28-31 '
                     '(US/European conventions differ), NOW/TODAY, serial 60; DATE/EDATE/EOMONTH over ALL years at once (z3 answers unknown) - representative years instead.'),
    'C16': dict(engine='KT+XH', technique='kernel translation of the rounding kernels into z3 reals/ints (one query per function; decimal context precision modelled), one bit-precise QF_FP translation of TRUNC\'s float arithmetic, + CrossHair symbolic execution of every math function with contract stubs for the C library',
                text='Bounded symbolic model checking: ROUND/ROUNDUP/ROUNDDOWN for EVERY real number in -10^60..10^60 (never an exception), TRUNC in -10^15..10^15, every digit count -10..10, INT, EVEN, FLOOR (integers), CEILING (integers, 9 significances), CEILING/FLOOR of every real in -10^6..10^6 to 7 decimal significances, MOD (integer dividends, 11 divisors) '
                     'equal Excel\'s rounding direction on exact decimal arithmetic; every function of the statement returns a finite number or an Excel error for ALL real arguments when the C library is replaced by its '
                     'documented domain contract (raises / NaN / infinity outside the domain, arbitrary finite value inside), and calls the library function the statement prescribes with the prescribed arguments '
                     '(ATAN2(x,y)=atan2(y,x), LOG(n,b)).',
                note='Trusted: kt/kt.py, kt/models_math.py (Decimal/round/localcontext/math.trunc|ceil|floor models), library contract table in props/c16.py (P3), CrossHair, z3; floats as exact reals. '
                     'TRUNC on IEEE doubles: every decimal k/10^n, |k| <= 10^9, n <= 4 (thorough 6) is its own truncation (QF_FP; trivially so once the function computes on Decimal(str(x))). NOT applicable: agreement with correctly rounded IEEE-754 values to a few ulp (libm/numpy C code).'),
    'C20': dict(engine='XH', technique='symbolic execution (CrossHair+z3) of NPV/XNPV/SLN with symbolic real cash flows on a concrete rate/date grid; PMT/PV with numpy_financial as an uninterpreted recording stub',
                text='Bounded symbolic model checking: NPV for 6 rates x 1..5 cash flows (thorough 9 x 8) and XNPV for 5 rates x 3 date vectors equal sum c_i f_i within 1e-9 relative for ALL real cash flows '
                     '(linearity, rate-0 reduction); SLN * life = cost - salvage for all reals, #DIV/0! at life 0; PMT/PV hand exactly (rate, nper, pv|pmt, fv, timing) to the annuity routine.',
                note=XH_NOTE + ' P4: numpy_financial replaced by a recording stub. NOT applicable: IRR/XIRR root claims (LAPACK eigenvalues / scipy Newton on floats) and the PMT/PV closed forms and their '
                     'inversion (inside numpy_financial); symbolic rates (float pow has no SMT-LIB counterpart).'),
    'C08': dict(engine='XH', technique='symbolic execution (CrossHair+z3) of the cast layer and of every registered function with numeric parameters under every spelling of the same symbolic value',
                text='Bounded symbolic model checking: Number/Text/Boolean casts and validate_args on ints (-999..999), digit strings (length <= 3), booleans, blanks, non-numeric text, decimal text without integer/fraction digits, exponents, surrounding blanks and near misses (1_0, nan, inf, 1e400, full-width digits -> #VALUE!); every registered '
                     'function with numeric scalar parameters (~75, enumerated at run time) x each numeric position x 8 spellings (int, float, Number, numeric text "n"/"n.0", Text, numpy.int64/float64, TRUE) '
                     'gives one result; arithmetic coercion identities for + - * unary minus and &; function-name dispatch for 7 spellings (case, _xlfn.), a user-registered function seen by a later evaluator.',
                note=XH_NOTE + ' Function bodies cross the C boundary, so the spelled value is forked over 1..3; P4 dateutil stub for the non-numeric-text obligation; date-text parsing by dateutil and locale formats are outside.'),
    'C11': dict(engine='XH', technique='symbolic execution (CrossHair+z3) of Reader.read_cells/read_defined_names + ModelCompiler.parse_archive/build_* on an in-memory openpyxl workbook of patch.Cell objects with symbolic payloads',
                text='Bounded symbolic model checking of the adapter layer only: for a 4-sheet in-memory workbook (a sheet name needing quotes, one whose name extends an ignorable one; 21 stored cells: constants, '
                     'formulas with cached results, an empty stored cell; 8 defined names: cell, range, on the quoted sheet, over cells that are not stored, also written out directly, on the ignorable sheet) and ALL '
                     'payload values (ints; int/text/bool), every subset of ignored sheets, three obligations each: exactly the non-ignored cells with typed constants, formula texts and cached results (readable '
                     'before evaluation) and the names bound; every formula and name evaluates to its reference value and a value set through a name reaches its cell; evaluates like a model built directly from the same contents. patch.WorksheetReader.bind_cells on parsed cell records with symbolic payloads: one cell per record with value, type and cached value, carried through read_cells.',
                note=XH_NOTE + ' NOT applicable (and not claimed): zip container, XML parsing, shared strings, shared-formula expansion, openpyxl.load_workbook - file I/O and third-party decoding through which no symbolic input survives.'),
}
NA = {
    'C12': 'persist/restore is ten lines around jsonpickle -> json (C encoder) -> gzip/file I/O; no repo-side kernel a solver can quantify over (symbolic values are realised or pickled as proxy objects at the codec boundary)',
}
for _p in []:
    NA.setdefault(_p, 'check not built yet in this revision (planned: see DESIGN.md §4)')
