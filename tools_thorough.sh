#!/bin/sh
# Runs every thorough command once, one after the other; prints a one-line summary per property.
for p in C19 C20 C06 C16 C10 C11 C05 C13 C03 C17 C18 C08 C15 C14 C09 C04 C07 C01 C02; do
  s=$(date +%s)
  out=$(bin/check $p --tier thorough --no-evidence 2>&1)
  rc=$?
  e=$(date +%s)
  echo "== $p rc=$rc wall=$((e-s))s :: $(echo "$out" | grep ' tier=' | tail -1)"
  echo "$out" | grep '^INCONCLUSIVE\|^VIOLATION\|counterexample' | head -8 | cut -c1-300
done
