#!/usr/bin/env python3
"""Evaluate one seeded change: tools_seed.py <seed-id> <property> <dir with patch.diff demo.py notes.md> [--tier quick] [--only substr]

1. In a scratch worktree of /repo (HEAD): clean tree -> demo exits 0; patched -> suite still matches the baseline, demo exits non-zero.
2. Runs bin/check <property> (quick by default) against a second scratch worktree with the patch applied (VERIF_REPO=<worktree>).
3. Writes /verif/seeded/<seed-id>/{patch.diff,demo.py,notes.md,meta.json}.
"""
import json, os, shutil, subprocess, sys, time

def sh(cmd, **kw):
    return subprocess.run(cmd, shell=True, capture_output=True, text=True, **kw)

def main():
    sid, prop, src = sys.argv[1:4]
    tier = 'quick'
    only = None
    extra = sys.argv[4:]
    if '--tier' in extra:
        tier = extra[extra.index('--tier') + 1]
    if '--only' in extra:
        only = extra[extra.index('--only') + 1]
    props = prop.split(',')
    wt = f'/tmp/wt/verify_{sid}'
    sh(f'git -C /repo worktree remove --force {wt}')
    r = sh(f'git -C /repo worktree add -q {wt} HEAD')
    meta = {'seed': sid, 'breaks_property': props[0], 'checked_with': props, 'source': src, 'ran': []}
    try:
        patch = os.path.join(src, 'patch.diff')
        demo = os.path.join(src, 'demo.py')
        r0 = sh(f'cd {wt} && /venv/bin/python {demo}')
        meta['demo_clean_exit'] = r0.returncode
        ap = sh(f'git -C {wt} apply {patch}')
        if ap.returncode != 0:
            meta['error'] = 'patch does not apply to current HEAD: ' + ap.stderr[-300:]
            print(json.dumps(meta, indent=1)); return 2
        r1 = sh(f'cd {wt} && /venv/bin/python {demo}')
        meta['demo_patched_exit'] = r1.returncode
        meta['demo_patched_tail'] = (r1.stdout + r1.stderr)[-400:]
        bc = sh(f'/verif/bin/baseline-check {wt}')
        meta['suite_with_patch'] = bc.stdout.strip().splitlines()[:3]
        meta['suite_ok'] = bc.returncode == 0
    finally:
        sh(f'git -C /repo worktree remove --force {wt}')
    valid = meta.get('demo_clean_exit') == 0 and meta.get('demo_patched_exit') not in (0, None) and meta.get('suite_ok')
    meta['valid_seed'] = bool(valid)
    # run our checks against a scratch worktree with the patch applied (VERIF_REPO), so /repo itself is never touched
    wt2 = f'/tmp/wt/run_{sid}'
    sh(f'git -C /repo worktree remove --force {wt2}')
    sh(f'git -C /repo worktree add -q {wt2} HEAD')
    ap = sh(f'git -C {wt2} apply {patch}')
    assert ap.returncode == 0, ap.stderr
    try:
        for p in props:
            t = time.time()
            cmd = f'cd /verif && VERIF_REPO={wt2} bin/check {p} --tier {tier} --no-evidence' + (f' --only "{only}"' if only else '')
            r = sh(cmd)
            lines = (r.stdout).splitlines()
            viol = [l for l in lines if l.startswith('VIOLATION')]
            cex = [l.strip()[:400] for l in lines if l.strip().startswith('counterexample')][:4]
            summ = [l for l in lines if ' tier=' in l][-1:]
            meta['ran'].append({'cmd': cmd.replace(wt2, '<worktree with patch.diff applied>'), 'exit': r.returncode, 'violations': len(viol), 'summary': summ, 'counterexamples': cex,
                                'inconclusive': [l[:300] for l in lines if l.startswith('INCONCLUSIVE')][:3], 'wall_s': round(time.time() - t, 1)})
    finally:
        sh(f'git -C /repo worktree remove --force {wt2}')
    meta['detected'] = any(x['exit'] == 1 for x in meta['ran'])
    meta['inconclusive_only'] = (not meta['detected']) and any(x['exit'] == 3 for x in meta['ran'])
    out = f'/verif/seeded/{sid}'
    os.makedirs(out, exist_ok=True)
    for f in ('patch.diff', 'demo.py', 'notes.md'):
        if os.path.exists(os.path.join(src, f)):
            shutil.copy(os.path.join(src, f), os.path.join(out, f))
    json.dump(meta, open(os.path.join(out, 'meta.json'), 'w'), indent=1)
    print(json.dumps({k: meta[k] for k in ('seed', 'valid_seed', 'detected', 'inconclusive_only')}), [ (x['exit'], x['summary'], x['counterexamples'][:1]) for x in meta['ran']])

if __name__ == '__main__':
    sys.exit(main())
