#!/bin/sh
# Runs every quick command once (evidence is rewritten); one summary line per property.
for p in C01 C02 C03 C04 C05 C06 C07 C08 C09 C10 C11 C13 C14 C15 C16 C17 C18 C19 C20; do
  s=$(date +%s)
  out=$(bin/check $p --tier quick 2>&1)
  rc=$?
  e=$(date +%s)
  echo "== $p rc=$rc wall=$((e-s))s :: $(echo "$out" | grep ' tier=' | tail -1)"
  echo "$out" | grep '^INCONCLUSIVE\|^VIOLATION\|counterexample' | head -6 | cut -c1-300
done
